// Conformance driver for celma::common::FixedString<L>  (properties C10, C11).
//   fixedstring_driver --script FILE                          replay of TLC-generated calls
//   fixedstring_driver --random --seed S --cases K --ops M [--wild 1] [--huge 1]
// Output: ndjson trace on stdout, format in specs/fixedstring/TraceFixedString.tla.
// The driver only records: the call (op, tk, sk = the C++ overload; all arguments), its result and what the
// public observers report afterwards.  It never computes an expected value.
//
// Memory sensors: main object in an exactly sized heap block (ASan sees every access outside it), second
// object between guard bytes, C strings / copy destinations in exactly sized heap blocks, std::string
// sources with the unused part of their buffer poisoned.
#include <cstring>
#include <memory>
#include <new>
#include <sstream>
#include <string>
#include <type_traits>
#include <vector>
#include "common/vharness.hpp"
#include "celma/common/fixed_string.hpp"

#if defined(__has_feature)
#if __has_feature(address_sanitizer)
#include <sanitizer/asan_interface.h>
#define VH_ASAN 1
#endif
#endif

using celma::common::FixedString;
static constexpr size_t S2 = 7;   // capacity of the "FixedString with another capacity" arguments
static constexpr long long kThrown = -2;
static constexpr long long kNotCalled = -3;   // self pointer source whose precondition does not hold for the real object

// ---- size_t <-> logged integer (all logged integers stay below 2^31; npos = -1) ------------------
static size_t dec(long long v) {
   if (v >= 0) return static_cast<size_t>(v);
   switch (v) {
   case -1: return SIZE_MAX;
   case -2: return SIZE_MAX - 1;
   case -3: return SIZE_MAX - 2;
   case -4: return SIZE_MAX - 3;
   case -5: return static_cast<size_t>(1) << 63;
   case -6: return static_cast<size_t>(1) << 32;
   case -7: return static_cast<size_t>(1) << 31;
   default: return SIZE_MAX;
   }
}
static long long enc(size_t v) {
   if (v < (static_cast<size_t>(1) << 31)) return static_cast<long long>(v);
   if (v == SIZE_MAX) return -1;
   if (v == SIZE_MAX - 1) return -2;
   if (v == SIZE_MAX - 2) return -3;
   if (v == SIZE_MAX - 3) return -4;
   if (v == static_cast<size_t>(1) << 63) return -5;
   if (v == static_cast<size_t>(1) << 32) return -6;
   if (v == static_cast<size_t>(1) << 31) return -7;
   return -8;
}

// the call in progress, printed to stderr when the process dies inside it (sanitizer report, terminate, signal)
extern char g_pending[1024];
#if !defined(FS_PART) || FS_PART == 0
char g_pending[1024] = "";
#endif
static void describePending() { if (g_pending[0]) { fputs("call in progress: ", stderr); fputs(g_pending, stderr); fputs("\n", stderr); fflush(stderr); } }
#ifdef VH_SANITIZER
static void onDeathFs() { describePending(); vh::on_death(); }
#endif
static void onTerminateFs() { describePending(); vh::on_terminate(); }
static void onSignalFs(int sig) { describePending(); vh::on_signal(sig); }

struct Args {
   std::string op, tk, sk;
   long long p1 = 0, c1 = 0, p2 = 0, c2 = 0;
   std::string src;
   int ch = 0;
};

// C string in an exactly sized heap block (strlen + 1 bytes)
struct CStr {
   char* p;
   explicit CStr(const std::string& b) : p(new char[b.size() + 1]) { if (!b.empty()) memcpy(p, b.data(), b.size()); p[b.size()] = '\0'; }
   ~CStr() { delete[] p; }
   CStr(const CStr&) = delete;
};
// std::string argument; the bytes of its buffer behind the terminating NUL are poisoned for ASan
struct StrArg {
   std::string* p;
   char* pb = nullptr; size_t pn = 0;
   explicit StrArg(const std::string& b) : p(new std::string(b.data(), b.size())) {
#ifdef VH_ASAN
      char* d = const_cast<char*>(p->data());
      char* obj = reinterpret_cast<char*>(p);
      if (d >= obj && d < obj + sizeof(std::string)) {          // short string: buffer inside the object
         pb = d + p->size() + 1; pn = static_cast<size_t>(obj + sizeof(std::string) - pb);
         if (pn > 0) ASAN_POISON_MEMORY_REGION(pb, pn);
      }
#endif
   }
   ~StrArg() {
#ifdef VH_ASAN
      if (pn > 0) ASAN_UNPOISON_MEMORY_REGION(pb, pn);
#endif
      delete p;
   }
   StrArg(const StrArg&) = delete;
   const std::string& ref() const { return *p; }
};

template <typename F, typename... X> static bool tryCall(F& f, X&&... x) {
   if constexpr (std::is_invocable_v<F&, X...>) { f(std::forward<X>(x)...); return true; }
   else return false;
}
#define CALL(expr) [&](auto&&... x) -> decltype((void)(expr)) { (void)(expr); }
template <typename A, typename B> static auto opEq(const A& a, const B& b) -> decltype(a == b) { return a == b; }
template <typename A, typename B> static auto opNe(const A& a, const B& b) -> decltype(a != b) { return a != b; }

struct ISession {
   virtual ~ISession() = default;
   virtual void run(const Args& a) = 0;
   virtual size_t cap() const = 0;
   virtual std::string content() const = 0;     // for the random generator (needles that occur)
};

template <size_t L> struct Session : ISession {
   using FS = FixedString<L>;
   using FS2 = FixedString<S2>;
   static constexpr size_t G = 48;
   struct Arena { unsigned char pre[G]; FS fs; unsigned char post[G]; };
   FS* s;          // exactly sized heap block
   Arena* ar;      // second object between guard bytes
   FS* o;
   bool notCalled = false;

   Session() {
      s = new FS();
      ar = new Arena();
      memset(ar->pre, 0xA5, G); memset(ar->post, 0xA5, G);
      o = &ar->fs;
      vj::Line().str("e", "Reset").num("L", static_cast<long long>(L)).emit();
   }
   ~Session() override { delete s; delete ar; }
   size_t cap() const override { return L; }
   std::string content() const override { return read(*s); }

   static std::string read(const FS& f) {            // data()[0 .. min(length(), L+1))
      size_t n = f.length(); if (n > L + 1) n = L + 1;
      return std::string(f.data(), n);
   }
   bool guardsOK() const {
      for (size_t i = 0; i < G; ++i) if (ar->pre[i] != 0xA5 || ar->post[i] != 0xA5) return false;
      return true;
   }
   static void project(vj::Line& ln, const FS& f, const char* ks, const char* kl, const char* ksl, const char* kn) {
      const size_t n = f.length();
      ln.bytes(ks, read(f)).num(kl, enc(n)).num(ksl, static_cast<long long>(strnlen(f.c_str(), L + 1)))
         .boolean(kn, n <= L && f.data()[n] == '\0');
   }

   // iterators by index (index >= length gives end())
   typename FS::const_iterator cit(size_t p) const { if (p >= s->length()) return s->cend(); auto i = s->cbegin(); i += p; return i; }
   typename FS::iterator mit(FS& f, size_t p) const { if (p >= f.length()) return f.end(); auto i = f.begin(); i += p; return i; }
   typename FS::const_iterator cito(const FS& f, size_t p) const { if (p >= f.length()) return f.cend(); auto i = f.cbegin(); i += p; return i; }
   static size_t addsat(size_t a, size_t b) { return (a > SIZE_MAX - b) ? SIZE_MAX : a + b; }
   long long itIndex(const typename FS::iterator& i) { return i == s->end() ? -1 : static_cast<long long>(i - s->begin()); }

   [[noreturn]] static void unsupported(const Args& a) {
      fprintf(stderr, "fixedstring_driver: unsupported call %s/%s/%s\n", a.op.c_str(), a.tk.c_str(), a.sk.c_str());
      fflush(stdout);
      _exit(3);
   }

   // Calls f with the source argument(s) selected by a.sk; logs into src what the call really received.
   template <typename F> void withSrc(const Args& a, std::string& src, F f) {
      const std::string& k = a.sk;
      const size_t p2 = dec(a.p2), c2 = dec(a.c2);
      const char ch = static_cast<char>(a.ch);
      bool ok = false;
      if (k == "cstr") { CStr c(a.src); ok = tryCall(f, static_cast<const char*>(c.p)); }
      else if (k == "cstr_cnt") { CStr c(a.src); ok = tryCall(f, static_cast<const char*>(c.p), c2); }
      else if (k == "str") { StrArg t(a.src); ok = tryCall(f, t.ref()); }
      else if (k == "str_pos_cnt") { StrArg t(a.src); ok = tryCall(f, t.ref(), p2, c2); }
      else if (k == "str_pos") { StrArg t(a.src); ok = tryCall(f, t.ref(), p2); }
      else if (k == "fs" || k == "fs_pos_cnt" || k == "fs_pos") {
         o->assign(std::string(a.src));
         src = read(*o);
         const FS& co = *o;
         ok = (k == "fs") ? tryCall(f, co) : (k == "fs_pos_cnt") ? tryCall(f, co, p2, c2) : tryCall(f, co, p2);
      } else if (k == "fs2" || k == "fs2_pos_cnt" || k == "fs2_pos") {
         std::unique_ptr<FS2> t(new FS2(std::string(a.src)));
         src = std::string(t->data(), std::min(t->length(), S2));
         const FS2& ct = *t;
         ok = (k == "fs2") ? tryCall(f, ct) : (k == "fs2_pos_cnt") ? tryCall(f, ct, p2, c2) : tryCall(f, ct, p2);
      } else if (k == "cnt_ch") ok = tryCall(f, c2, ch);
      else if (k == "ch") ok = tryCall(f, ch);
      else if (k == "ilist") {
         const std::string& b = a.src;
         switch (b.size()) {
         case 0: ok = tryCall(f, std::initializer_list<char>{}); break;
         case 1: ok = tryCall(f, std::initializer_list<char>{b[0]}); break;
         case 2: ok = tryCall(f, std::initializer_list<char>{b[0], b[1]}); break;
         case 3: ok = tryCall(f, std::initializer_list<char>{b[0], b[1], b[2]}); break;
         case 4: ok = tryCall(f, std::initializer_list<char>{b[0], b[1], b[2], b[3]}); break;
         case 5: ok = tryCall(f, std::initializer_list<char>{b[0], b[1], b[2], b[3], b[4]}); break;
         case 6: ok = tryCall(f, std::initializer_list<char>{b[0], b[1], b[2], b[3], b[4], b[5]}); break;
         default: ok = tryCall(f, std::initializer_list<char>{b[0], b[1], b[2], b[3], b[4], b[5], b[6]}); src = b.substr(0, 7); break;
         }
      } else if (k == "fsit") {                      // iterator pair into the second object
         o->assign(std::string(a.src));
         src = read(*o);
         auto f1 = mit(*o, p2); auto l1 = mit(*o, addsat(p2, c2));
         auto c1 = cito(*o, p2); auto cl1 = cito(*o, addsat(p2, c2));
         ok = tryCall(f, f1, l1) || tryCall(f, c1, cl1);
      } else if (k == "selfit") {
         auto f1 = mit(*s, p2); auto l1 = mit(*s, addsat(p2, c2));
         auto c1 = cit(p2); auto cl1 = cit(addsat(p2, c2));
         ok = tryCall(f, f1, l1) || tryCall(f, c1, cl1);
      } else if (k == "self" || k == "self_pos_cnt" || k == "self_pos") {
         // self-aliasing: the object itself is the FixedString argument; src = what it held just before the call
         src = read(*s);
         const FS& me = *s;
         ok = (k == "self") ? tryCall(f, me) : (k == "self_pos_cnt") ? tryCall(f, me, p2, c2) : tryCall(f, me, p2);
      } else if (k == "selfptr" || k == "selfptr_cnt") {
         // self-aliasing: c_str() + p2 as C string (p2 <= length(): a character or the terminating zero) resp.
         // (c_str() + p2, c2) with c2 characters of the content; src = the C string found there before the call.
         // A pointer behind the terminating zero / a count beyond the content would make the caller itself read
         // stale bytes: such a call is not made (logged with ri = kNotCalled; it is outside the documented domain).
         const size_t len = s->length();
         if (len > L || p2 > len || (k == "selfptr_cnt" && c2 > len - p2)) { src.clear(); notCalled = true; ok = true; }
         else {
            const char* p = s->c_str() + p2;
            src.assign(p, strnlen(p, L + 1 - p2));
            ok = (k == "selfptr") ? tryCall(f, p) : tryCall(f, p, c2);
         }
      } else if (k == "strit") {
         std::string t(a.src);
         const size_t b = std::min(p2, t.size()), e = std::min(addsat(p2, c2), t.size());
         ok = tryCall(f, t.begin() + static_cast<long>(b), t.begin() + static_cast<long>(e));
      } else if (k == "none" || k == "mut" || k == "const" || k == "c") ok = tryCall(f);
      if (!ok) unsupported(a);
   }

   void run(const Args& a) override {
      long long ri = 0;
      std::string rs, src = a.src;
      const size_t p1 = dec(a.p1), c1 = dec(a.c1);
      const char ch = static_cast<char>(a.ch);
      const std::string &op = a.op, &tk = a.tk, &sk = a.sk;
      const FS& cs = *s;
      notCalled = false;
      {
         std::string cur = read(*s), txt = "[";
         for (size_t i = 0; i < a.src.size() && i < 40; ++i) { if (i) txt += ','; txt += std::to_string(static_cast<unsigned char>(a.src[i])); }
         txt += (a.src.size() > 40) ? ",...]" : "]";
         snprintf(g_pending, sizeof g_pending, "L=%zu length=%zu %s/%s/%s p1=%lld c1=%lld src(len %zu)=%s p2=%lld c2=%lld ch=%d",
                  L, cur.size(), op.c_str(), tk.c_str(), sk.c_str(), a.p1, a.c1, a.src.size(), txt.c_str(), a.p2, a.c2, a.ch);
      }
      try {
         if (op == "assign") {
            if (tk == "assign") withSrc(a, src, CALL(s->assign(x...)));
            else if (tk == "op_eq") withSrc(a, src, CALL(s->operator=(x...)));
            else if (tk == "ctor") {
               if (sk == "fs_move") {
                  o->assign(std::string(a.src)); src = read(*o);
                  s->~FS(); new (s) FS(std::move(*o));
               } else withSrc(a, src, CALL((s->~FS(), new (s) FS(x...))));
            } else unsupported(a);
         } else if (op == "clear") s->clear();
         else if (op == "insert") {
            if (tk == "idx") withSrc(a, src, CALL(s->insert(p1, x...)));
            else if (tk == "it") { typename FS::iterator r; withSrc(a, src, CALL(r = s->insert(cit(p1), x...))); ri = itIndex(r); }
            else unsupported(a);
         } else if (op == "erase") {
            if (tk == "idx_cnt") s->erase(p1, c1);
            else if (tk == "idx") s->erase(p1);
            else if (tk == "noargs") s->erase();
            else if (tk == "it") ri = itIndex(s->erase(cit(p1)));
            else if (tk == "it_it") ri = itIndex(s->erase(cit(p1), cit(addsat(p1, c1))));
            else unsupported(a);
         } else if (op == "push_back") s->push_back(ch);
         else if (op == "pop_back") s->pop_back();
         else if (op == "append") {
            if (tk == "app") withSrc(a, src, CALL(s->append(x...)));
            else if (tk == "pe") withSrc(a, src, CALL(s->operator+=(x...)));
            else unsupported(a);
         } else if (op == "sprintf") {
            // rendering of the same format/arguments by the C library into a large buffer is logged as src
            std::vector<char> big(a.src.size() + 4096);
            CStr c(a.src);
            int n = 0;
            switch (a.p1) {
            case 0: n = snprintf(big.data(), big.size(), "%s", c.p); s->sprintf("%s", c.p); break;
            case 1: n = snprintf(big.data(), big.size(), "%s%d", c.p, 7); s->sprintf("%s%d", c.p, 7); break;
            case 2: n = snprintf(big.data(), big.size(), "%5.2f", 1.5); s->sprintf("%5.2f", 1.5); break;
            case 3: n = snprintf(big.data(), big.size(), "%d|%s|", -42, c.p); s->sprintf("%d|%s|", -42, c.p); break;
            default: n = snprintf(big.data(), big.size(), "%0*d", static_cast<int>(a.c1), 5); s->sprintf("%0*d", static_cast<int>(a.c1), 5); break;
            }
            src.assign(big.data(), static_cast<size_t>(n < 0 ? 0 : std::min<size_t>(static_cast<size_t>(n), big.size() - 1)));
         } else if (op == "replace") {
            if (tk == "pos_cnt") withSrc(a, src, CALL(s->replace(p1, c1, x...)));
            else if (tk == "it_it") withSrc(a, src, CALL(s->replace(cit(p1), cit(addsat(p1, c1)), x...)));
            else unsupported(a);
         } else if (op == "swap") {
            if (tk == "other") { o->assign(std::string(a.src)); src = read(*o); s->swap(*o); }
            else if (tk == "self") s->swap(*s);
            else unsupported(a);
         } else if (op == "set") {
            if (tk == "at") s->at(p1) = ch;
            else if (tk == "idx") (*s)[p1] = ch;
            else if (tk == "front") s->front() = ch;
            else if (tk == "back") s->back() = ch;
            else if (tk == "it") { auto i = s->begin(); i += p1; *i = ch; }
            else if (tk == "rit") { auto i = s->rbegin(); i += p1; *i = ch; }
            else unsupported(a);
         } else if (op == "substr") {
            rs = (tk == "pos_cnt") ? s->substr(p1, c1) : s->substr(p1);
         } else if (op == "copy") {
            // destination sized by the contract of copy(): min(count, length - pos) characters
            const size_t len = s->length();
            const size_t pos = (tk == "cnt_pos") ? p1 : 0;
            const size_t room = (pos <= len) ? std::min(c1, len - pos) : 0;
            std::unique_ptr<char[]> d(new char[room]);
            const size_t got = (tk == "cnt_pos") ? s->copy(d.get(), c1, p1) : s->copy(d.get(), c1);
            ri = enc(got);
            rs.assign(d.get(), std::min(got, room));
         } else if (op == "find" || op == "rfind" || op == "find_first_of" || op == "find_first_not_of" || op == "find_last_of" || op == "find_last_not_of") {
            size_t r = 0;
            const bool pos = (tk == "pos");
            if (!pos && tk != "nopos") unsupported(a);
#define FINDCALL(M) do { if (pos) { if (sk == "cstr_cnt") { CStr c(a.src); r = cs.M(static_cast<const char*>(c.p), p1, dec(a.c2)); } \
                                     else if (sk == "selfptr_cnt") { Args b = a; b.sk = "selfptr"; const size_t n = dec(a.c2); \
                                        if (n > s->length() || dec(a.p2) > s->length() - n) { src.clear(); notCalled = true; } \
                                        else withSrc(b, src, CALL(r = cs.M(x..., p1, n))); } \
                                     else withSrc(a, src, CALL(r = cs.M(x..., p1))); } \
                         else withSrc(a, src, CALL(r = cs.M(x...))); } while (0)
            if (op == "find") FINDCALL(find);
            else if (op == "rfind") FINDCALL(rfind);
            else if (op == "find_first_of") FINDCALL(find_first_of);
            else if (op == "find_first_not_of") FINDCALL(find_first_not_of);
            else if (op == "find_last_of") FINDCALL(find_last_of);
            else FINDCALL(find_last_not_of);
#undef FINDCALL
            ri = enc(r);
         } else if (op == "compare") {
            int r = 0;
            if (tk == "whole") withSrc(a, src, CALL(r = cs.compare(x...)));
            else if (tk == "pos_cnt") withSrc(a, src, CALL(r = cs.compare(p1, c1, x...)));
            else unsupported(a);
            ri = r;
         } else if (op == "starts_with") { bool r = false; withSrc(a, src, CALL(r = cs.starts_with(x...))); ri = r; }
         else if (op == "ends_with") { bool r = false; withSrc(a, src, CALL(r = cs.ends_with(x...))); ri = r; }
         else if (op == "contains") { bool r = false; withSrc(a, src, CALL(r = cs.contains(x...))); ri = r; }
         else if (op == "rel") {
            bool r = false;
            if (tk == "eq") withSrc(a, src, CALL(r = opEq(cs, x...)));
            else if (tk == "ne") withSrc(a, src, CALL(r = opNe(cs, x...)));
            else unsupported(a);
            ri = r;
         } else if (op == "obs") {
            if (tk == "str") rs = cs.str();
            else if (tk == "c_str") rs.assign(cs.c_str(), strnlen(cs.c_str(), L + 1));
            else if (tk == "data") rs = read(cs);
            else if (tk == "data_mut") { size_t n = s->length(); if (n > L + 1) n = L + 1; rs.assign(s->data(), n); }
            else if (tk == "length") ri = enc(cs.length());
            else if (tk == "empty") ri = cs.empty();
            else if (tk == "ostream") { std::ostringstream os; os << cs; rs = os.str(); }
            else unsupported(a);
         } else if (op == "get") {
            const bool m = (sk == "mut");
            if (tk == "at") ri = static_cast<unsigned char>(m ? s->at(p1) : cs.at(p1));
            else if (tk == "idx") ri = static_cast<unsigned char>(m ? (*s)[p1] : cs[p1]);
            else if (tk == "front") ri = static_cast<unsigned char>(m ? s->front() : cs.front());
            else if (tk == "back") ri = static_cast<unsigned char>(m ? s->back() : cs.back());
            else unsupported(a);
         } else if (op == "iter") {
            const size_t maxsteps = L + 2;
            size_t steps = 0;
#define WALK(B, E, STEP) do { auto i = (B); auto e = (E); for (; i != e && steps < maxsteps; STEP, ++steps) rs.push_back(*i); } while (0)
            if (tk == "fwd") { if (sk == "mut") WALK(s->begin(), s->end(), ++i); else if (sk == "const") WALK(cs.begin(), cs.end(), ++i); else WALK(s->cbegin(), s->cend(), ++i); }
            else if (tk == "fwd_post") { if (sk == "mut") WALK(s->begin(), s->end(), i++); else if (sk == "const") WALK(cs.begin(), cs.end(), i++); else WALK(s->cbegin(), s->cend(), i++); }
            else if (tk == "rev") { if (sk == "mut") WALK(s->rbegin(), s->rend(), ++i); else if (sk == "const") WALK(cs.rbegin(), cs.rend(), ++i); else WALK(s->crbegin(), s->crend(), ++i); }
            else if (tk == "rev_post") { if (sk == "mut") WALK(s->rbegin(), s->rend(), i++); else if (sk == "const") WALK(cs.rbegin(), cs.rend(), i++); else WALK(s->crbegin(), s->crend(), i++); }
#undef WALK
            else if (tk == "dist") ri = enc(sk == "mut" ? (s->end() - s->begin()) : sk == "const" ? (cs.end() - cs.begin()) : (s->cend() - s->cbegin()));
            else if (tk == "rdist") ri = enc(sk == "mut" ? (s->rend() - s->rbegin()) : sk == "const" ? (cs.rend() - cs.rbegin()) : (s->crend() - s->crbegin()));
            else if (tk == "deref") {
               if (sk == "mut") { auto i = s->begin(); i += p1; ri = static_cast<unsigned char>(*i); }
               else if (sk == "const") { auto i = cs.begin(); i += p1; ri = static_cast<unsigned char>(*i); }
               else { auto i = s->cbegin(); i += p1; ri = static_cast<unsigned char>(*i); }
            } else if (tk == "rderef") {
               if (sk == "mut") { auto i = s->rbegin(); i += p1; ri = static_cast<unsigned char>(*i); }
               else if (sk == "const") { auto i = cs.rbegin(); i += p1; ri = static_cast<unsigned char>(*i); }
               else { auto i = s->crbegin(); i += p1; ri = static_cast<unsigned char>(*i); }
            } else if (tk == "back_from") {            // walk towards the front with operator-- until it reports the end
               auto i = cit(p1); auto e = s->cend();
               for (; i != e && steps < maxsteps; --i, ++steps) rs.push_back(*i);
            } else if (tk == "rback_from") {           // reverse iterator walking back towards rbegin() with operator--
               auto i = s->crbegin(); i += p1; auto e = s->crend();
               if (sk == "mut") { auto j = s->rbegin(); j += p1; auto je = s->rend(); for (; j != je && steps < maxsteps; --j, ++steps) rs.push_back(*j); }
               else for (; i != e && steps < maxsteps; --i, ++steps) rs.push_back(*i);
            } else if (tk == "diff") ri = enc(cit(c1) - cit(p1));
            else if (tk == "minus_eq") { auto i = mit(*s, c1); i -= p1; ri = static_cast<unsigned char>(*i); }
            else if (tk == "rindex") { auto i = s->rbegin(); i += p1; ri = static_cast<unsigned char>(i[c1]); }
            else if (tk == "cmp") {
               const auto x = cit(p1), y = cit(c1);
               ri = (x < y ? 1 : 0) + (x <= y ? 2 : 0) + (x > y ? 4 : 0) + (x >= y ? 8 : 0) + (x == y ? 16 : 0) + (x != y ? 32 : 0);
            }
            else if (tk == "index") { auto i = mit(*s, p1); ri = static_cast<unsigned char>(i[c1]); }
            else unsupported(a);
         } else unsupported(a);
      } catch (const std::exception&) {
         ri = kThrown; rs.clear();
      }
      if (notCalled) { ri = kNotCalled; rs.clear(); }
      g_pending[0] = '\0';
      vj::Line ln;
      ln.str("e", "Op").str("op", op).str("tk", tk).str("sk", sk).num("p1", a.p1).num("c1", a.c1).bytes("src", src)
         .num("p2", a.p2).num("c2", a.c2).num("ch", a.ch).num("ri", ri).bytes("rs", rs);
      project(ln, *s, "s", "len", "sl", "nul");
      project(ln, *o, "o", "olen", "osl", "onul");
      ln.boolean("g", guardsOK());
      ln.emit();
   }
};

// The capacities are instantiated in four groups so that the check can compile them as separate translation
// units in parallel (-DFS_PART=0..3); without FS_PART everything is one translation unit.
static const long kCaps[] = {1, 2, 3, 4, 5, 8, 16, 31, 64, 255, 256, 65535, 65536};
std::unique_ptr<ISession> makeA(long n);
std::unique_ptr<ISession> makeB(long n);
std::unique_ptr<ISession> makeC(long n);
std::unique_ptr<ISession> makeD(long n);
#if !defined(FS_PART) || FS_PART == 1
std::unique_ptr<ISession> makeA(long n) {
   switch (n) {
   case 1: return std::make_unique<Session<1>>();
   case 2: return std::make_unique<Session<2>>();
   case 3: return std::make_unique<Session<3>>();
   case 4: return std::make_unique<Session<4>>();
   default: return nullptr;
   }
}
#endif
#if !defined(FS_PART) || FS_PART == 2
std::unique_ptr<ISession> makeB(long n) {
   switch (n) {
   case 5: return std::make_unique<Session<5>>();
   case 8: return std::make_unique<Session<8>>();
   case 16: return std::make_unique<Session<16>>();
   case 31: return std::make_unique<Session<31>>();
   default: return nullptr;
   }
}
#endif
#if !defined(FS_PART) || FS_PART == 3
std::unique_ptr<ISession> makeC(long n) {
   switch (n) {
   case 64: return std::make_unique<Session<64>>();
   case 255: return std::make_unique<Session<255>>();
   case 256: return std::make_unique<Session<256>>();
   default: return nullptr;
   }
}
#endif
#if !defined(FS_PART) || FS_PART == 0
std::unique_ptr<ISession> makeD(long n) {
   switch (n) {
   case 65535: return std::make_unique<Session<65535>>();
   case 65536: return std::make_unique<Session<65536>>();
   default: return nullptr;
   }
}
static std::unique_ptr<ISession> make(long n) {
   if (auto p = makeA(n)) return p;
   if (auto p = makeB(n)) return p;
   if (auto p = makeC(n)) return p;
   return makeD(n);
}

// ---------------------------------------------------------------- random histories
struct Combo { const char *op, *tk, *sk; };
static std::vector<Combo> combos() {
   std::vector<Combo> v;
   auto add = [&](const char* op, std::initializer_list<const char*> tks, std::initializer_list<const char*> sks) {
      for (auto t : tks) for (auto k : sks) v.push_back({op, t, k});
   };
   add("assign", {"assign", "op_eq", "ctor"}, {"cstr", "str", "fs", "fs2"});
   add("assign", {"ctor"}, {"fs_move"});
   add("clear", {"none"}, {"none"});
   add("insert", {"idx"}, {"cstr", "str", "fs", "fs2", "str_pos_cnt", "str_pos", "fs_pos_cnt", "fs_pos", "fs2_pos_cnt", "fs2_pos", "cnt_ch", "cstr_cnt"});
   add("insert", {"it"}, {"ch", "cnt_ch", "ilist"});
   add("erase", {"idx_cnt", "idx", "noargs", "it", "it_it"}, {"none"});
   add("push_back", {"none"}, {"ch"});
   add("pop_back", {"none"}, {"none"});
   add("append", {"app"}, {"cstr", "str", "fs", "fs2", "str_pos_cnt", "str_pos", "fs_pos_cnt", "fs_pos", "fs2_pos_cnt", "fs2_pos", "cnt_ch", "cstr_cnt", "fsit", "selfit"});
   add("append", {"pe"}, {"cstr", "str", "fs", "fs2", "ch"});
   add("sprintf", {"fmt"}, {"str"});
   add("replace", {"pos_cnt"}, {"cstr", "str", "fs", "fs2", "str_pos_cnt", "str_pos", "fs_pos_cnt", "fs_pos", "fs2_pos_cnt", "fs2_pos", "cnt_ch", "cstr_cnt"});
   add("replace", {"it_it"}, {"fsit", "strit", "cstr_cnt", "cstr", "cnt_ch", "ilist"});
   add("swap", {"other"}, {"fs"});
   add("swap", {"self"}, {"none"});
   add("set", {"at", "idx", "it", "rit", "front", "back"}, {"ch"});
   add("substr", {"pos_cnt", "pos"}, {"none"});
   add("copy", {"cnt_pos", "cnt"}, {"none"});
   for (const char* f : {"find", "rfind", "find_first_of", "find_first_not_of", "find_last_of", "find_last_not_of"}) {
      add(f, {"pos"}, {"fs", "str", "cstr", "cstr_cnt", "ch"});
      add(f, {"nopos"}, {"fs", "str", "cstr", "ch"});
   }
   add("compare", {"whole"}, {"cstr", "str", "fs", "fs2"});
   add("compare", {"pos_cnt"}, {"cstr", "str", "fs", "fs2", "fs_pos_cnt", "fs2_pos_cnt", "str_pos_cnt", "cstr_cnt"});
   add("starts_with", {"none"}, {"cstr", "str", "fs", "fs2", "ch"});
   add("ends_with", {"none"}, {"cstr", "str", "fs", "fs2", "ch"});
   add("contains", {"none"}, {"cstr", "str", "fs", "fs2", "ch"});
   add("rel", {"eq", "ne"}, {"fs", "fs2"});
   add("obs", {"str", "c_str", "data", "data_mut", "length", "empty", "ostream"}, {"none"});
   add("get", {"at", "idx", "front", "back"}, {"mut", "const"});
   add("iter", {"fwd", "fwd_post", "rev", "rev_post", "dist", "rdist", "deref", "rderef", "back_from", "rback_from"}, {"mut", "const", "c"});
   add("iter", {"diff", "cmp"}, {"const"});
   add("iter", {"index", "rindex", "minus_eq"}, {"mut"});
   // self-aliasing sources: the object itself, c_str() + k, iterators of the object (appended at the end: the
   // first 12 combinations stay the assign family)
   add("assign", {"assign", "op_eq"}, {"self", "selfptr"});
   add("insert", {"idx"}, {"self", "self_pos_cnt", "self_pos", "selfptr", "selfptr_cnt"});
   add("append", {"app"}, {"self", "self_pos_cnt", "self_pos", "selfptr", "selfptr_cnt"});
   add("append", {"pe"}, {"self", "selfptr"});
   add("replace", {"pos_cnt"}, {"self", "self_pos_cnt", "self_pos", "selfptr", "selfptr_cnt"});
   add("replace", {"it_it"}, {"selfit", "selfptr", "selfptr_cnt"});
   add("compare", {"whole"}, {"self", "selfptr"});
   add("compare", {"pos_cnt"}, {"self", "selfptr", "self_pos_cnt", "selfptr_cnt"});
   for (const char* f : {"find", "rfind", "find_first_of", "find_first_not_of", "find_last_of", "find_last_not_of"}) {
      add(f, {"pos"}, {"self", "selfptr", "selfptr_cnt"});
      add(f, {"nopos"}, {"self", "selfptr"});
   }
   for (const char* f : {"starts_with", "ends_with", "contains"}) add(f, {"none"}, {"self", "selfptr"});
   add("rel", {"eq", "ne"}, {"self"});
   return v;
}

struct Gen {
   vh::Rng& rng;
   bool wild;
   explicit Gen(vh::Rng& r, bool w) : rng(r), wild(w) {}
   static bool is(const char* a, const char* b) { return strcmp(a, b) == 0; }
   long long big() { static const long long b[] = {-1, -1, -2, -3, -4, -5, -6, -7}; return b[rng.below(8)]; }
   // a position in a text of length len
   long long pos(size_t len, size_t L) {
      if (wild && rng.chance(1, 4)) {
         switch (rng.below(5)) {
         case 0: return static_cast<long long>(len + 1);
         case 1: return static_cast<long long>(L + rng.below(3));
         case 2: return static_cast<long long>(2 * L + 5);
         default: return big();
         }
      }
      switch (rng.below(5)) {
      case 0: return 0;
      case 1: return static_cast<long long>(len);
      case 2: return len > 0 ? static_cast<long long>(len - 1) : 0;
      default: return static_cast<long long>(rng.below(len + 1));
      }
   }
   long long cnt(size_t avail, size_t L) {
      switch (rng.below(8)) {
      case 0: return 0;
      case 1: return 1;
      case 2: return -1;
      case 3: return static_cast<long long>(avail);
      case 4: return static_cast<long long>(L + 1 + rng.below(3));
      case 5: return wild ? big() : 2;
      default: return static_cast<long long>(rng.below(avail + 2));
      }
   }
   int chr() {
      if (wild && rng.chance(1, 6)) return static_cast<int>(rng.below(256));
      if (rng.chance(1, 10)) return 0;                       // NUL is an ordinary character (sanitised for C-string kinds)
      return 'a' + static_cast<int>(rng.below(4));
   }
   std::string text(size_t maxlen) {
      size_t n;
      switch (rng.below(6)) {
      case 0: n = 0; break;
      case 1: n = 1; break;
      case 2: n = maxlen; break;
      default: n = rng.below(maxlen + 1); break;
      }
      std::string t;
      for (size_t i = 0; i < n; ++i) t.push_back(static_cast<char>(chr()));
      return t;
   }
   Args make(const Combo& c, const std::string& cur, size_t L) {
      Args a; a.op = c.op; a.tk = c.tk; a.sk = c.sk;
      const size_t len = cur.size();
      const std::string op = a.op, tk = a.tk, sk = a.sk;
      const bool isFind = op.compare(0, 4, "find") == 0 || op == "rfind";
      const bool needle = isFind || op == "starts_with" || op == "ends_with" || op == "contains" || op == "compare" || op == "rel";
      // ---- source
      size_t maxsrc = (L <= 64) ? L + 3 : (rng.chance(1, 3) ? L + 20 : 40);
      if (op == "assign" && rng.chance(1, 8)) maxsrc = 2 * L + 7;
      if (sk == "fs2" || sk == "fs2_pos_cnt" || sk == "fs2_pos") maxsrc = S2 + 2;
      if (sk == "ilist") maxsrc = 7;
      const bool search = isFind || op == "contains" || op == "starts_with" || op == "ends_with";
      if (search && len >= 2 && rng.chance(1, 5)) {
         // a needle (about) as long as the content that is not the content: a rotation of it.  Only index 0 may be
         // compared at all; every later index whose character equals the needle's first one tempts a search loop with a
         // wrong bound to compare behind the content / the object
         const size_t b = 1 + rng.below(len - 1);
         a.src = cur.substr(b) + cur.substr(0, b);
         if (rng.chance(1, 3)) a.src.resize(len - rng.below(std::min<size_t>(len - 1, 3) + 1));
      } else if (needle && rng.chance(1, 2) && len > 0) {     // something that occurs in the current content
         const size_t b = rng.below(len), n = 1 + rng.below(std::min<size_t>(len - b, 4));
         a.src = cur.substr(b, n);
         if (op == "compare" || op == "rel") a.src = rng.chance(1, 2) ? cur : cur.substr(0, rng.below(len + 1));
         if (sk == "ilist" && a.src.size() > 7) a.src.resize(7);
      } else if (needle) a.src = text(std::min<size_t>(maxsrc, 4));
      else a.src = text(maxsrc);
      // C-string source kinds stay NUL-free in the documented domain (A.3); all other kinds may carry NUL characters
      if (!wild && (sk == "cstr" || sk == "cstr_cnt")) for (auto& ch : a.src) if (ch == 0) ch = 'a';
      a.ch = (needle && len > 0 && rng.chance(1, 2)) ? static_cast<unsigned char>(cur[rng.below(len)]) : chr();
      const bool selfKind = (sk == "self" || sk == "self_pos_cnt" || sk == "self_pos" || sk == "selfptr" || sk == "selfptr_cnt");
      if (selfKind) a.src.clear();                            // the driver logs what the object held before the call
      size_t slen = (sk == "selfit" || selfKind) ? len : a.src.size();
      if (sk.compare(0, 3, "fs2") == 0) slen = std::min(slen, S2);            // the other FixedString cuts its source off
      else if (sk.compare(0, 2, "fs") == 0) slen = std::min(slen, L);
      if (sk == "selfptr" || sk == "selfptr_cnt") {           // c_str() + k, k <= length (never behind the terminating zero)
         size_t k = rng.chance(1, 4) ? 0 : rng.below(len + 1);
         // huge capacities: a needle of half the content makes the declarative Find / Contains of the specification
         // quadratic on uniform contents (70 000 x 'a'); sub-string searches there use a short tail as needle
         if (L > 4096 && (op == "find" || op == "rfind" || op == "contains") && len > 40) k = len - rng.below(41);
         a.p2 = static_cast<long long>(k); a.c2 = -1;
         // the count stays inside the content; in the documented domain also inside the C string found at k
         const size_t avail = wild ? len - k : strnlen(cur.c_str() + k, len - k);
         if (sk == "selfptr_cnt") a.c2 = static_cast<long long>(rng.chance(1, 3) ? avail : rng.below(avail + 1));
      }
      else if (sk == "cstr_cnt") a.c2 = static_cast<long long>(rng.below(strlen(a.src.c_str()) + 1));   // never beyond the caller's block
      else if (sk == "cnt_ch") {
         a.c2 = rng.chance(1, 8) ? static_cast<long long>(L + 1 + rng.below(70)) : static_cast<long long>(rng.below(std::min<size_t>(L, 40) + 3));
         if (wild && rng.chance(1, 8)) a.c2 = rng.chance(1, 2) ? big() : static_cast<long long>(70000 + rng.below(100));
      } else if (sk == "fsit" || sk == "selfit" || sk == "strit") {
         a.p2 = static_cast<long long>(rng.below(slen + 1));
         a.c2 = static_cast<long long>(rng.below(slen - static_cast<size_t>(a.p2) + 1));
      } else if (sk.size() > 8 && sk.compare(sk.size() - 8, 8, "_pos_cnt") == 0) { a.p2 = pos(slen, L); a.c2 = cnt(slen, L); }
      else if (sk.size() > 4 && sk.compare(sk.size() - 4, 4, "_pos") == 0) { a.p2 = pos(slen, L); a.c2 = -1; }
      else if (sk == "cstr" || sk == "str" || sk == "fs" || sk == "fs2" || sk == "ilist" || sk == "fs_move" || sk == "self") { a.p2 = 0; a.c2 = -1; }
      // ---- target
      if (op == "insert" || op == "replace" || op == "substr" || (op == "compare" && tk == "pos_cnt")) a.p1 = pos(len, L);
      if (op == "erase") { a.p1 = (tk == "noargs") ? 0 : pos(len, L); a.c1 = (tk == "idx_cnt" || tk == "it_it") ? cnt(len, L) : (tk == "it" ? 1 : -1); if (tk == "it_it" && a.c1 < 0) a.c1 = static_cast<long long>(len); }
      if (op == "replace") { a.c1 = cnt(len, L); if (tk == "it_it" && a.c1 < 0) a.c1 = static_cast<long long>(len); }
      if (op == "substr") a.c1 = (tk == "pos_cnt") ? cnt(len, L) : -1;
      if (op == "copy") { a.p1 = (tk == "cnt_pos") ? pos(len, L) : 0; a.c1 = cnt(len, L); }
      if (op == "compare") a.c1 = (tk == "pos_cnt") ? cnt(len, L) : -1;
      if (isFind) {
         const bool back = (op == "rfind" || op == "find_last_of" || op == "find_last_not_of");
         if (tk == "nopos") a.p1 = back ? -1 : 0;
         else a.p1 = (back && rng.chance(1, 3)) ? -1 : pos(len, L);
      }
      if (op == "sprintf") {
         a.p1 = static_cast<long long>(rng.below(5));
         if (a.p1 == 4) a.c1 = rng.chance(1, 3) ? static_cast<long long>(250 + rng.below(400)) : static_cast<long long>(rng.below(L + 4));
         if (rng.chance(1, 4)) { a.src.clear(); const size_t n = 200 + rng.below(500); for (size_t i = 0; i < n; ++i) a.src.push_back(static_cast<char>('a' + i % 26)); }
         for (auto& ch : a.src) if (ch == 0) ch = 'z';
      }
      if (op == "set" || op == "get" || op == "iter") {
         // operator[] and iterator[] beyond the terminating NUL are documented as undefined: never generated
         const bool unchecked = (tk == "idx" || tk == "index" || tk == "front" || tk == "back");
         if (tk == "at" && op == "get") a.p1 = pos(len, L);
         else a.p1 = static_cast<long long>(len > 0 ? rng.below(len) : 0);
         if (op == "get" && tk == "idx") a.p1 = static_cast<long long>(rng.below(len + 1));
         if (tk == "diff" || tk == "minus_eq") { a.c1 = static_cast<long long>(len > 0 ? rng.below(len) : 0); if (a.c1 < a.p1) std::swap(a.c1, a.p1); }
         if (tk == "index" || tk == "rindex") a.c1 = static_cast<long long>(len > static_cast<size_t>(a.p1) ? rng.below(len - static_cast<size_t>(a.p1)) : 0);
         if (tk == "cmp") { a.p1 = static_cast<long long>(rng.below(len + 1)); a.c1 = static_cast<long long>(rng.below(len + 1)); }
         (void)unchecked;
      }
      return a;
   }
};

static bool applicable(const Combo& c, size_t len) {
   // calls that the documentation declares undefined (or that need an existing character) are not generated
   const std::string op = c.op, tk = c.tk;
   if (op == "set") return len > 0;
   if (op == "iter" && (tk == "deref" || tk == "rderef" || tk == "back_from" || tk == "rback_from" || tk == "diff" || tk == "index"
                        || tk == "rindex" || tk == "minus_eq")) return len > 0;
   return true;
}

int main(int argc, char** argv) {
   vh::init();
#ifdef VH_SANITIZER
   __sanitizer_set_death_callback(onDeathFs);
#endif
   std::set_terminate(onTerminateFs);
   signal(SIGSEGV, onSignalFs); signal(SIGABRT, onSignalFs); signal(SIGFPE, onSignalFs); signal(SIGBUS, onSignalFs);
   const char* script = vh::arg(argc, argv, "--script");
   if (script != nullptr) {
      FILE* f = fopen(script, "r");
      if (!f) { fprintf(stderr, "cannot open %s\n", script); return 3; }
      std::vector<vj::Value> acts;
      std::string line;
      while (vj::getline(f, line)) if (!line.empty()) acts.push_back(vj::parse(line));
      fclose(f);
      std::unique_ptr<ISession> ses;
      for (size_t i = 0; i < acts.size(); ++i) {
         const auto& v = acts[i];
         if (v["n"].str() == "Reset") {
            const long cap = (i + 1 < acts.size()) ? static_cast<long>(acts[i + 1]["L"].num(1)) : 1;
            ses.reset();
            ses = make(cap);
            if (!ses) { fprintf(stderr, "no instantiation for capacity %ld\n", cap); return 3; }
            continue;
         }
         if (!ses) continue;
         Args a;
         a.op = v["op"].str(); a.tk = v["tk"].str(); a.sk = v["sk"].str();
         a.p1 = v["p1"].num(); a.c1 = v["c1"].num(); a.p2 = v["p2"].num(); a.c2 = v["c2"].num();
         a.src = v["src"].bytes(); a.ch = static_cast<int>(v["ch"].num());
         ses->run(a);
      }
   } else {
      vh::Rng rng(static_cast<uint64_t>(vh::argnum(argc, argv, "--seed", 1)));
      const long cases = vh::argnum(argc, argv, "--cases", 10);
      const long ops = vh::argnum(argc, argv, "--ops", 100);
      const bool wild = vh::argnum(argc, argv, "--wild", 0) != 0;
      const bool huge = vh::argnum(argc, argv, "--huge", 0) != 0;
      const std::vector<Combo> all = combos();
      Gen gen(rng, wild);
      const size_t ncap = sizeof kCaps / sizeof kCaps[0];
      for (long c = 0; c < cases; ++c) {
         long cap;
         long nops = ops;
         if (huge) { cap = kCaps[ncap - 2 + static_cast<size_t>(c % 2)]; nops = std::min<long>(ops, 20); }
         else cap = kCaps[static_cast<size_t>(c) % (ncap - 2)];
         std::unique_ptr<ISession> ses = make(cap);
         for (long k = 0; k < nops; ++k) {
            const std::string cur = ses->content();
            Combo cb = all[rng.below(all.size())];
            // keep the string from staying empty or full all the time
            if (cur.empty() && rng.chance(1, 2)) cb = all[rng.below(12)];
            if (!applicable(cb, cur.size())) continue;
            ses->run(gen.make(cb, cur, static_cast<size_t>(cap)));
         }
      }
   }
   vh::end();
   return 0;
}
#endif  // FS_PART == 0
