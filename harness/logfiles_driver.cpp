// Conformance driver for log file names and the file policies Simple and Timestamped (extension component X03):
//   celma::log::filename::{Definition, Creator, Builder}, celma::log::files::{Simple, Timestamped, Handler, factory}.
//   logfiles_driver --dir D --comp name|files [--via policy|handler|factory|alt] --script FILE
//   logfiles_driver --dir D --comp name|files [--via ..] --random --seed S --cases K [--ops M] [--findings 1]
// comp name : executions of the Creator (one event per streamed item: the Definition as seen by a derived class, the
//             observers, and Builder::filename() for some probe inputs) with changes of the environment in between
// comp files: the definition is built through the Creator (same Item events), then a policy object works on REAL files
//             below D: Open (new object + open()), Write (writeMessage()), Close (object destroyed), Restart
//             V = policy  : the policy object is called directly
//                 handler : Logging::log() -> Log -> files::Handler<Policy>::message() -> stream formatter -> policy
//                 factory : like handler, the Handler created by files::factory<>() (logFileName() not reachable)
//                 alt     : executions rotate over the three
// The system time and the process id are inputs of the component (Builder::filename() defaults to ::time(nullptr),
// PolicyBase::open() and Timestamped::openCheck() read the clock, the pid part reads ::getpid()).  The driver defines
// time() and getpid() itself (virtual clock / virtual pid), so every run is reproducible and the recorded trace states
// both as arguments of the calls.
// Output: ndjson trace on stdout (event format: specs/logfiles/TraceLogFiles.tla).  The driver only records.
#include <dirent.h>
#include <sys/stat.h>
#include <sys/syscall.h>
#include <algorithm>
#include <fstream>
#include <memory>
#include <sstream>
#include <vector>
#include "common/vharness.hpp"
#include "celma/log/detail/i_format_stream.hpp"
#include "celma/log/detail/log.hpp"
#include "celma/log/detail/log_msg.hpp"
#include "celma/log/filename/builder.hpp"
#include "celma/log/filename/creator.hpp"
#include "celma/log/filename/definition.hpp"
#include "celma/log/files/factory.hpp"
#include "celma/log/files/handler.hpp"
#include "celma/log/files/simple.hpp"
#include "celma/log/files/timestamped.hpp"
#include "celma/log/logging.hpp"

namespace clf = celma::log::files;
namespace clfn = celma::log::filename;

// ---------------------------------------------------------------- virtual clock and pid
static time_t gNow = 1000000000;
static pid_t gPid = 4711;
static bool gFake = false;              // only while a library call of the component runs / between Reset and End
extern "C" time_t time(time_t* t) {
   time_t r = gNow;
   if (!gFake) { timespec ts; clock_gettime(CLOCK_REALTIME, &ts); r = ts.tv_sec; }
   if (t != nullptr) *t = r;
   return r;
}
extern "C" pid_t getpid(void) {
   if (gFake) return gPid;
   return static_cast<pid_t>(syscall(SYS_getpid));
}

static std::string gDir;               // scratch directory of this run
static const char* const kEnvNames[] = {"E", "X03_F"};

// the Definition as a derived class sees it (the parts are protected members)
struct DefAccess : clfn::Definition {
   std::string partsJson() const {
      std::string js = "[";
      for (size_t i = 0; i < mParts.size(); ++i) {
         const auto& p = mParts[i];
         const char* t = p.mType == PartTypes::constant ? "constant" : p.mType == PartTypes::env ? "env"
                       : p.mType == PartTypes::date ? "date" : p.mType == PartTypes::number ? "number" : "pid";
         if (i) js += ',';
         js += vj::Line().str("t", t).bytes("s", p.mConstant).num("w", p.mFixedWidth)
                  .num("f", static_cast<unsigned char>(p.mFillChar)).done();
      }
      return js + "]";
   }
};

// ---------------------------------------------------------------- message text <-> id (as in logrolling_driver)
static const char kDigits[] = "0123456789abcdefghijklmnopqrstuvwxyz";
static std::string idText(long id) {
   std::string s;
   do { s.insert(s.begin(), kDigits[id % 36]); id /= 36; } while (id > 0);
   return s;
}
static bool makeText(long id, long len, std::string& out) {
   out = idText(id);
   if (static_cast<long>(out.size()) > len) return false;
   out.append(static_cast<size_t>(len) - out.size(), '.');
   return true;
}
static long decodeId(const std::string& line) {
   long id = 0;
   size_t i = 0;
   for (; i < line.size() && line[i] != '.'; ++i) {
      const char* p = strchr(kDigits, line[i]);
      if (p == nullptr || line[i] == '\0' || id > 50000000) return -1;
      id = id * 36 + (p - kDigits);
   }
   if (i == 0) return -1;
   for (; i < line.size(); ++i) if (line[i] != '.') return -1;
   return id;
}

// ---------------------------------------------------------------- projection: what is on disk
static void listFiles(const std::string& dir, const std::string& rel, std::vector<std::string>& out) {
   if (DIR* d = opendir(dir.c_str())) {
      while (dirent* e = readdir(d)) {
         const std::string n = e->d_name;
         if (n == "." || n == "..") continue;
         struct stat st;
         if (::stat((dir + "/" + n).c_str(), &st) == 0 && S_ISDIR(st.st_mode)) listFiles(dir + "/" + n, rel + n + "/", out);
         else out.push_back(rel + n);
      }
      closedir(d);
   }
}
static std::string projection() {
   std::vector<std::string> names;
   listFiles(gDir, "", names);
   std::sort(names.begin(), names.end());
   std::string js = "[";
   for (size_t k = 0; k < names.size(); ++k) {
      std::ifstream in(gDir + "/" + names[k], std::ios::binary);
      std::stringstream ss;
      ss << in.rdbuf();
      const std::string content = ss.str();
      std::vector<long> ids, lens;
      size_t pos = 0;
      while (pos < content.size()) {
         const size_t nl = content.find('\n', pos);
         if (nl == std::string::npos) break;
         const std::string line = content.substr(pos, nl - pos);
         ids.push_back(decodeId(line));
         lens.push_back(static_cast<long>(line.size()));
         pos = nl + 1;
      }
      if (k) js += ',';
      js += vj::Line().bytes("name", names[k]).ints("ids", ids).ints("lens", lens)
               .num("tail", static_cast<long long>(content.size() - pos)).done();
   }
   return js + "]";
}
static void cleanTree(const std::string& dir, bool top) {
   if (DIR* d = opendir(dir.c_str())) {
      while (dirent* e = readdir(d)) {
         const std::string n = e->d_name;
         if (n == "." || n == "..") continue;
         const std::string p = dir + "/" + n;
         struct stat st;
         if (::lstat(p.c_str(), &st) == 0 && S_ISDIR(st.st_mode)) cleanTree(p, false); else ::remove(p.c_str());
      }
      closedir(d);
   }
   if (!top) ::rmdir(dir.c_str());
}
// name relative to the scratch directory ("" = not below it: logged with a leading '?')
static std::string relName(const std::string& path) {
   const std::string pre = gDir + "/";
   if (path.compare(0, pre.size(), pre) == 0) return path.substr(pre.size());
   return "?" + path;
}

// stream formatter that writes the message text only: one line on disk = the text handed to Logging::log()
struct TextOnlyFormat final : celma::log::detail::IFormatStream {
   void format(std::ostream& out, const celma::log::detail::LogMsg& msg) const override { out << msg.getText(); }
};

// ---------------------------------------------------------------- one item streamed into the Creator
struct Item {
   std::string k, s;
   long n = 0;
};
struct Probe {
   long nbr = 0, ts = 0;
   int how = 0;      // 0 static Builder::filename(def, nbr, ts); 1 Builder object, fresh destination string;
                     // 2 Builder object, the destination string still holds the name of the previous call
                     // 3 static Builder::filename(def) with the default arguments (nbr is 0, ts is the system time)
};

struct Session {
   // ---- the definition under construction
   std::unique_ptr<DefAccess> def;
   std::unique_ptr<clfn::Creator> creator;
   bool inFiles = false;            // comp files: names get the scratch directory in front
   // ---- the policy
   std::string kind = "simple", via = "policy";
   long nextId = 1;
   bool isOpen = false;
   std::unique_ptr<clf::PolicyBase> pol;
   clf::PolicyBase* rawPol = nullptr;
   celma::log::id_t logId = 0;

   void drop() {
      gFake = true;
      pol.reset();
      if (logId != 0) {
         try { celma::log::Logging::instance().getLog(logId)->removeDestination("file"); } catch (const std::exception&) {}
         celma::log::Logging::reset();
         logId = 0;
      }
      rawPol = nullptr;
      isOpen = false;
   }
   static std::string envJson() {
      std::string js = "[";
      for (size_t i = 0; i < 2; ++i) {
         const char* v = ::getenv(kEnvNames[i]);
         if (i) js += ',';
         js += vj::Line().bytes("n", std::string(kEnvNames[i])).bytes("v", std::string(v ? v : "")).done();
      }
      return js + "]";
   }
   // cfg: what the known-findings expressions look at (kind + the date format strings of the planned definition)
   void reset(const std::string& k, const std::string& v, long pid, bool files, const std::vector<Item>& planned) {
      drop();
      cleanTree(gDir, true);
      for (const char* n : kEnvNames) ::setenv(n, "", 1);
      kind = k; via = v; nextId = 1; inFiles = files;
      gPid = static_cast<pid_t>(pid);
      gFake = true;
      def.reset(new DefAccess());
      creator.reset(new clfn::Creator(*def));
      std::string fmts = "[";
      bool first = true, pending = false;
      std::string pf;
      for (const auto& it : planned) {
         if (it.k == "fmt") { pf = it.s; pending = true; }
         else if (it.k == "date") {
            if (!first) fmts += ',';
            first = false;
            fmts += vj::Line().str("f", pending ? pf : std::string("%F")).done();
            pending = false; pf.clear();
         } else if (it.k == "text" || it.k == "env" || it.k == "number" || it.k == "pid") { pending = false; pf.clear(); }
      }
      fmts += "]";
      vj::Line().str("e", "Reset").str("kind", kind).num("pid", pid).raw("env", envJson()).str("via", via)
         .raw("cfg", vj::Line().str("kind", kind).str("comp", files ? "files" : "name").raw("fmts", fmts).done()).emit();
      if (files) {
         // the scratch directory in front of every name: a text streamed first (not an event; the names are logged
         // relative to the directory)
         *creator << (gDir + "/");
      }
   }
   std::string render(const Probe& p, const char*& res, std::string& how) {
      res = "ok";
      std::string name;
      const time_t keep = gNow;
      try {
         if (p.how == 0) { how = "static"; name = clfn::Builder::filename(*def, static_cast<int>(p.nbr), static_cast<time_t>(p.ts)); }
         else if (p.how == 3) {
            // the default arguments: "int logfile_nbr = 0, time_t timestamp = ::time( nullptr)"
            how = "default";
            gNow = static_cast<time_t>(p.ts);
            name = clfn::Builder::filename(*def);
         } else {
            how = p.how == 1 ? "object" : "reuse";
            const clfn::Builder b(*def);
            if (p.how == 2) b.filename(name, static_cast<int>(p.nbr) + 1, static_cast<time_t>(p.ts));
            b.filename(name, static_cast<int>(p.nbr), static_cast<time_t>(p.ts));
         }
      } catch (const std::invalid_argument&) { res = "invalid_argument"; name.clear(); }
      catch (const std::exception&) { res = "exception"; name.clear(); }
      gNow = keep;
      return name;
   }
   std::string probesJson(const std::vector<Probe>& probes) {
      // comp files: nothing to render while the definition holds the directory text only
      if (inFiles && partsJson() == "[]") return "[]";
      std::string js = "[";
      for (size_t i = 0; i < probes.size(); ++i) {
         const char* res; std::string how;
         std::string name = render(probes[i], res, how);
         if (inFiles && strcmp(res, "ok") == 0) name = relName(name);
         if (i) js += ',';
         js += vj::Line().num("nbr", probes[i].nbr).num("ts", probes[i].ts).str("how", how).bytes("name", name).str("res", res).done();
      }
      return js + "]";
   }
   std::string partsJson() const {
      if (!inFiles) return def->partsJson();
      // comp files: hide the scratch directory streamed in front (the first part is a constant text starting with it)
      DefAccess copy(*def);
      struct Peek : DefAccess { static vector_t& parts(DefAccess& d) { return static_cast<Peek&>(d).mParts; } };
      auto& ps = Peek::parts(copy);
      const std::string pre = gDir + "/";
      if (!ps.empty() && ps[0].mType == clfn::Definition::PartTypes::constant && ps[0].mConstant.compare(0, pre.size(), pre) == 0) {
         ps[0].mConstant.erase(0, pre.size());
         if (ps[0].mConstant.empty()) ps.erase(ps.begin());
      }
      return copy.partsJson();
   }
   // how: 0 stream operators / manipulators, 1 the public methods behind them where they exist
   void item(const Item& it, int how, const std::vector<Probe>& probes) {
      clfn::Creator& c = *creator;
      if (it.k == "text") c << it.s;
      else if (it.k == "env") c << clfn::env_var(it.s);
      else if (it.k == "fmt") c << clfn::formatString(it.s);
      else if (it.k == "date") { if (how) c.part(clfn::Definition::PartTypes::date); else c << clfn::date; }
      else if (it.k == "number") { if (how) c.part(clfn::Definition::PartTypes::number); else c << clfn::number; }
      else if (it.k == "pid") { if (how) c.part(clfn::Definition::PartTypes::pid); else c << clfn::pid; }
      else if (it.k == "width") { if (how) c.setFixedWidth(static_cast<int>(it.n)); else c << static_cast<int>(it.n); }
      else if (it.k == "fill") { if (how) c.setFillChar(static_cast<char>(it.n)); else c << static_cast<char>(it.n); }
      else if (it.k == "sep") { if (how) c.setCheckPathSeparator(); else c << clfn::path_sep; }
      else { fprintf(stderr, "unknown item kind %s\n", it.k.c_str()); fflush(stdout); _exit(3); }
      // comp files: the definition is "empty" for the specification as long as it holds the directory text only
      const bool empty = inFiles ? partsJson() == "[]" : def->empty();
      vj::Line().str("e", "Item").str("k", it.k).bytes("s", it.s).num("n", it.n).str("how", how ? "method" : "op")
         .boolean("empty", empty).boolean("hasnbr", def->hasGenerationNbr()).boolean("hasdate", def->hasDateField())
         .raw("parts", partsJson()).raw("r", probesJson(probes)).emit();
   }
   void setEnv(const std::string& var, const std::string& val, const std::vector<Probe>& probes) {
      ::setenv(var.c_str(), val.c_str(), 1);
      vj::Line().str("e", "SetEnv").bytes("var", var).bytes("val", val).raw("r", probesJson(probes)).emit();
   }
   // ---- policies
   clf::PolicyBase* make() const {
      if (kind == "simple") return new clf::Simple(*def);
      return new clf::Timestamped(*def);
   }
   // constructor contract (the object is destroyed at once, nothing is opened)
   void ctor(const std::string& k) {
      // comp files: the definition always holds the directory text, "empty" cannot be observed through it
      if (inFiles && partsJson() == "[]") return;
      const char* res = "ok";
      try {
         std::unique_ptr<clf::PolicyBase> p;
         if (k == "simple") p.reset(new clf::Simple(*def)); else p.reset(new clf::Timestamped(*def));
      } catch (const std::exception&) { res = "exception"; }
      vj::Line().str("e", "Ctor").str("kind", k).str("res", res).emit();
   }
   std::string curName() const { return rawPol ? relName(rawPol->logFileName()) : std::string(); }
   void doOpen(const char*& res) {
      res = "ok";
      try {
         if (via == "policy") {
            pol.reset(make());
            rawPol = pol.get();
            pol->open();
         } else {
            celma::log::Logging::reset();
            logId = celma::log::Logging::instance().findCreateLog("x03");
            celma::log::detail::Log* l = celma::log::Logging::instance().getLog(logId);
            celma::log::detail::ILogDest* h = nullptr;
            if (via == "handler") {
               rawPol = make();
               try {
                  if (kind == "simple") h = new clf::Handler<clf::Simple>(static_cast<clf::Simple*>(rawPol));
                  else h = new clf::Handler<clf::Timestamped>(static_cast<clf::Timestamped*>(rawPol));
               } catch (...) { rawPol = nullptr; throw; }
            } else {
               rawPol = nullptr;
               if (kind == "simple") h = clf::factory<clf::LogFileTypes::simple>(*def);
               else h = clf::factory<clf::LogFileTypes::timestamped>(*def);
            }
            h->setFormatter(new TextOnlyFormat());
            l->addDestination("file", h);
         }
         isOpen = true;
      } catch (const std::exception&) { res = "exception"; isOpen = false; pol.reset(); rawPol = nullptr; }
   }
   void emitPolicy(const char* e, long now, long ts, long id, long len, const char* res) {
      vj::Line().str("e", e).num("now", now).num("ts", ts).num("id", id).num("len", len).str("res", res)
         .boolean("hascur", rawPol != nullptr).bytes("cur", curName()).raw("log", projection()).emit();
   }
   void open(long now) {
      if (isOpen) return;
      gNow = static_cast<time_t>(now);
      const char* res;
      doOpen(res);
      emitPolicy("Open", now, 0, 0, 0, res);
   }
   void restart(long now) {
      if (!isOpen) return;
      drop();
      gNow = static_cast<time_t>(now);
      const char* res;
      doOpen(res);
      emitPolicy("Restart", now, 0, 0, 0, res);
   }
   void write(long now, long ts, long len) {
      if (!isOpen) return;
      const long id = nextId++;
      std::string text;
      if (!makeText(id, len, text)) { fprintf(stderr, "message id %ld does not fit into %ld bytes\n", id, len); fflush(stdout); _exit(3); }
      gNow = static_cast<time_t>(now);
      const char* res = "ok";
      celma::log::detail::LogMsg lm("logfiles_driver.cpp", "write", 1);
      lm.setTimestamp(static_cast<time_t>(ts));
      try {
         if (via == "policy") pol->writeMessage(lm, text);
         else {
            lm.setText(text);
            if (id & 1) celma::log::Logging::instance().log(logId, lm);
            else celma::log::Logging::instance().log("x03", lm);
         }
      } catch (const std::exception&) { res = "exception"; }
      emitPolicy("Write", now, ts, id, len, res);
   }
   void close() {
      if (!isOpen) return;
      drop();
      vj::Line().str("e", "Close").raw("log", projection()).emit();
   }
};

// ---------------------------------------------------------------- random generation (inputs only)
static const char* const kTextPool[] = {"log", "a", "file.", ".txt", "-", "_x", "app", "Z9", ".", "data-"};
static std::string randText(vh::Rng& rng, bool slashes) {
   if (rng.chance(1, 14)) return "";
   std::string s = kTextPool[rng.below(10)];
   if (rng.chance(1, 3)) s += kTextPool[rng.below(10)];
   if (slashes) {
      if (rng.chance(1, 3)) s.insert(s.begin(), '/');
      if (rng.chance(1, 3)) s.push_back('/');
      if (rng.chance(1, 10)) s.insert(s.size() / 2, "/");
   }
   return s;
}
static const char* const kDirectives[] = {"%Y", "%y", "%m", "%d", "%e", "%j", "%H", "%M", "%S", "%F", "%T", "%R", "%%"};
static std::string randFmt(vh::Rng& rng) {
   std::string f;
   const long n = rng.range(1, 5);
   for (long i = 0; i < n; ++i) {
      if (rng.chance(1, 3)) f += "-_.Tx:"[rng.below(6)];
      f += kDirectives[rng.below(13)];
   }
   if (rng.chance(1, 4)) f += ".log";
   // now and then a format whose result is longer than any fixed-size buffer one might use for it
   if (rng.chance(1, 25)) { f += std::string(static_cast<size_t>(rng.range(100, 300)), 'L'); f += kDirectives[rng.below(13)]; }
   return f;
}
static Probe randProbe(vh::Rng& rng, long maxNbr) {
   Probe p;
   p.nbr = rng.chance(1, 4) ? 0 : static_cast<long>(rng.below(static_cast<uint64_t>(maxNbr) + 1));
   switch (rng.below(4)) {
   case 0: p.ts = static_cast<long>(rng.below(2147483647ull)); break;
   case 1: p.ts = 86400 * static_cast<long>(rng.below(24855)) + (rng.chance(1, 2) ? 0 : 86399); break;   // day boundaries
   case 2: p.ts = 951782400 + static_cast<long>(rng.below(3 * 86400));  break;                              // around 2000-02-29
   default: p.ts = 1000000000 + static_cast<long>(rng.below(1000000000ull)); break;
   }
   p.how = static_cast<int>(rng.below(4));
   if (p.how == 3) p.nbr = 0;
   return p;
}
static Item randItem(vh::Rng& rng, long digits, bool slashes) {
   Item it;
   switch (rng.below(16)) {
   case 0: case 1: case 2: case 3: it.k = "text"; it.s = randText(rng, slashes); break;
   case 4: it.k = "env"; it.s = kEnvNames[rng.below(2)]; break;
   case 5: case 6: it.k = "date"; break;
   case 7: case 8: it.k = "number"; break;
   case 9: it.k = "pid"; break;
   case 10: case 11: it.k = "width"; it.n = rng.chance(1, 5) ? 0 : rng.range(digits, digits + 4); break;
   case 12: it.k = "fill"; it.n = "0 _x-#9"[rng.below(7)]; break;
   case 13: case 14: it.k = "fmt"; it.s = randFmt(rng); break;
   default: it.k = "sep"; break;
   }
   return it;
}
static long pow10(long d) { long r = 1; while (d-- > 0) r *= 10; return r; }

// a date format of minute / hour / day granularity that names every period differently
static std::string periodFmt(vh::Rng& rng, int gran) {
   static const char* const days[] = {"%F", "%Y%m%d", "%Y-%j", "%y%m%d", "%d.%m.%Y", "%Y_%m_%e"};
   std::string f = days[rng.below(6)];
   if (gran >= 1) { f += rng.chance(1, 2) ? "_" : "-"; f += "%H"; }
   if (gran >= 2) f += rng.chance(1, 2) ? "%M" : "h%M";
   if (gran == 2 && rng.chance(1, 4)) { f = days[rng.below(6)]; f += "T%R"; }
   return f;
}

static void randomName(Session& s, vh::Rng& rng, long cases, long ops) {
   for (long c = 0; c < cases; ++c) {
      const long digits = rng.range(1, 5);
      const long maxNbr = pow10(digits) - 1;
      std::vector<Item> plan;
      for (long o = 0; o < ops; ++o) plan.push_back(randItem(rng, digits, true));
      // a sensible skeleton in some cases so that long definitions with all kinds of parts occur
      s.reset("simple", "policy", rng.range(1, maxNbr), false, plan);
      if (rng.chance(1, 4)) { s.ctor("simple"); s.ctor("timestamped"); }
      for (const auto& it : plan) {
         if (rng.chance(1, 6)) {
            std::vector<Probe> p2{randProbe(rng, maxNbr)};
            s.setEnv(kEnvNames[rng.below(2)], rng.chance(1, 4) ? "" : randText(rng, true), p2);
         }
         std::vector<Probe> probes{randProbe(rng, maxNbr), randProbe(rng, maxNbr)};
         s.item(it, rng.chance(1, 3) ? 1 : 0, probes);
         if (rng.chance(1, 8)) { s.ctor("timestamped"); s.ctor("simple"); }
      }
   }
}

static void randomFiles(Session& s, vh::Rng& rng, long cases, long ops, const std::string& viaArg, long& execNo, bool findings) {
   static const char* const vias[] = {"policy", "handler", "factory"};
   for (long c = 0; c < cases; ++c) {
      const std::string via = viaArg == "alt" ? vias[(execNo++) % 3] : viaArg;
      const long digits = rng.range(1, 4);
      const bool timestamped = rng.chance(2, 3);
      int gran = static_cast<int>(rng.below(3));        // 0 day, 1 hour, 2 minute
      std::vector<Item> plan;
      auto text = [&](const std::string& t) { Item it; it.k = "text"; it.s = t; plan.push_back(it); };
      auto prop = [&](const char* k, const std::string& sv, long n) { Item it; it.k = k; it.s = sv; it.n = n; plan.push_back(it); };
      std::string fmt = periodFmt(rng, gran);
      const char* finding = "";
      if (findings) {
         // definitions the as-built Timestamped is known not to handle (known_findings.jsonl, property X03)
         switch (c % 3) {
         case 0: fmt = "%Y-%m"; finding = "month"; break;
         case 1: fmt = "%Y"; finding = "year"; break;
         default: fmt = "%F_%T"; finding = "second"; break;
         }
      }
      if (rng.chance(3, 4)) text(randText(rng, false) + "l");
      if (rng.chance(1, 4)) { prop("env", kEnvNames[rng.below(2)], 0); if (rng.chance(1, 2)) text("-"); }
      const bool withDate = timestamped || findings || rng.chance(1, 2);
      if (withDate) {
         if (fmt != "%F" || rng.chance(1, 2)) prop("fmt", fmt, 0);
         prop("date", "", 0);
      }
      if (rng.chance(1, 4)) { text("."); if (rng.chance(2, 3)) prop("width", "", rng.range(digits, digits + 3)); if (rng.chance(1, 2)) prop("fill", "", "0_x"[rng.below(3)]); prop("number", "", 0); }
      if (rng.chance(1, 5)) { text(".p"); if (rng.chance(1, 2)) prop("width", "", rng.range(digits, digits + 3)); prop("pid", "", 0); }
      if (rng.chance(1, 2) || plan.empty()) {
         // two texts in a row are one constant text; path_sep between them would make a sub-directory: not used here
         if (rng.chance(1, 4)) text("_");
         text(rng.chance(1, 2) ? ".log" : ".txt");
      }
      s.reset(timestamped || findings ? "timestamped" : "simple", via, rng.range(1, pow10(digits) - 1), true, plan);
      (void)finding;
      if (rng.chance(1, 2)) s.setEnv(kEnvNames[0], randText(rng, false), {});
      if (rng.chance(1, 2)) s.setEnv(kEnvNames[1], randText(rng, false), {});
      long now = 1000000000 + static_cast<long>(rng.below(1000000000ull));
      if (rng.chance(1, 3)) now = now - now % 86400 + 86400 - rng.range(1, 200);      // shortly before midnight
      bool ctorDone = false;
      for (const auto& it : plan) {
         if (!ctorDone && it.k == "date" && rng.chance(1, 2)) { s.ctor("timestamped"); s.ctor("simple"); ctorDone = true; }
         std::vector<Probe> probes;
         Probe p; p.nbr = 0; p.ts = now; p.how = static_cast<int>(rng.below(2));
         probes.push_back(p);
         s.item(it, 0, probes);
      }
      s.ctor("timestamped");
      s.open(now);
      const long step = gran == 2 ? 25 : gran == 1 ? 1500 : 30000;
      for (long o = 0; o < ops; ++o) {
         switch (rng.below(8)) {
         case 0: now += rng.range(0, 3); break;
         case 1: now += rng.range(0, step * 3); break;
         case 2: now += 60 - now % 60 - (rng.chance(1, 2) ? 1 : 0); break;       // to the end of the minute / the next one
         case 3: now += 3600 - now % 3600 - (rng.chance(1, 2) ? 1 : 0); break;
         case 4: if (rng.chance(1, 3)) now += 86400 - now % 86400 - (rng.chance(1, 2) ? 1 : 0); break;
         default: now += rng.range(0, step); break;
         }
         if (now > 2100000000) now = 2100000000;
         if (!s.isOpen) { s.open(now); continue; }
         const long r = static_cast<long>(rng.below(20));
         if (r == 0) { s.close(); continue; }
         if (r == 1 || r == 2) { s.restart(now); continue; }
         long len = rng.range(1, 40);
         const long w = static_cast<long>(idText(s.nextId).size());
         if (len < w) len = w;
         s.write(now, now, len);
      }
      s.close();
   }
}

static Item itemOf(const vj::Value& v) {
   Item it;
   it.k = v["k"].str();
   it.s = v["s"].bytes();
   it.n = v.has("num") ? v["num"].num() : v["n"].num();
   return it;
}

int main(int argc, char** argv) {
   vh::init();
   const char* dir = vh::arg(argc, argv, "--dir");
   if (dir == nullptr) { fprintf(stderr, "--dir missing\n"); return 3; }
   gDir = dir;
   if (::mkdir(gDir.c_str(), 0755) != 0 && errno != EEXIST) { fprintf(stderr, "cannot create %s\n", dir); return 3; }
   const std::string comp = vh::arg(argc, argv, "--comp", "name");
   const std::string viaArg = vh::arg(argc, argv, "--via", "policy");
   long execNo = vh::argnum(argc, argv, "--phase", 0);
   static const char* const vias[] = {"policy", "handler", "factory"};
   Session s;
   const char* script = vh::arg(argc, argv, "--script");
   // probe inputs of the replayed Creator executions (the model's probes; inputs, not expectations)
   const std::vector<Probe> scriptProbes{{0, 1614902310, 0}, {7, 1640995199, 1}, {12, 1709210096, 2}, {0, 1614902400, 3}};
   if (script != nullptr) {
      FILE* f = fopen(script, "r");
      if (!f) { fprintf(stderr, "cannot open %s\n", script); return 3; }
      std::vector<vj::Value> acts;
      std::string line;
      while (vj::getline(f, line)) if (!line.empty()) acts.push_back(vj::parse(line));
      fclose(f);
      long itemNo = 0;
      for (size_t i = 0; i < acts.size(); ++i) {
         const auto& a = acts[i];
         const std::string n = a["n"].str();
         if (n == "Reset") {
            if (i + 1 >= acts.size()) continue;
            const auto& nx = acts[i + 1];
            if (comp == "name") {
               std::vector<Item> plan;
               for (size_t j = i + 1; j < acts.size() && acts[j]["n"].str() != "Reset"; ++j)
                  if (acts[j]["n"].str() == "Item") plan.push_back(itemOf(acts[j]));
               s.reset("simple", "policy", 42, false, plan);
            } else {
               // the configuration is carried by the first action after the Reset
               std::vector<Item> plan;
               for (size_t j = 0; j < nx["def"].size(); ++j) plan.push_back(itemOf(nx["def"][j]));
               const std::string via = viaArg == "alt" ? vias[(execNo++) % 3] : viaArg;
               s.reset(nx["kind"].str(), via, nx["pid"].num(1), true, plan);
               for (size_t j = 0; j < nx["env"].size(); ++j) s.setEnv(nx["env"][j]["n"].bytes(), nx["env"][j]["v"].bytes(), {});
               for (const auto& it : plan) s.item(it, static_cast<int>((itemNo++) & 1), {});
            }
         } else if (n == "Item") s.item(itemOf(a), static_cast<int>((itemNo++) % 3 == 2), scriptProbes);
         else if (n == "SetEnv") s.setEnv(a["s"].bytes(), a["val"].bytes(), scriptProbes);
         else if (n == "Open") s.open(a["now"].num());
         else if (n == "Write") s.write(a["now"].num(), a["ts"].num(), a["len"].num(1));
         else if (n == "Close") s.close();
         else if (n == "Restart") s.restart(a["now"].num());
      }
   } else {
      vh::Rng rng(static_cast<uint64_t>(vh::argnum(argc, argv, "--seed", 1)));
      const long cases = vh::argnum(argc, argv, "--cases", 10);
      if (comp == "name") randomName(s, rng, cases, vh::argnum(argc, argv, "--ops", 12));
      else randomFiles(s, rng, cases, vh::argnum(argc, argv, "--ops", 60), viaArg, execNo, vh::argnum(argc, argv, "--findings", 0) != 0);
   }
   s.drop();
   gFake = false;
   cleanTree(gDir, true);
   ::rmdir(gDir.c_str());
   vh::end();
   return 0;
}
