// Conformance driver for celma::log::formatting::{Creator, Definition, Format} and the log attributes
// (Logging::add/removeAttribute, detail::ScopedAttribute, LogAttributes)  -- property C16.
//   logformat_driver --script FILE                 replay of TLC-generated action sequences
//   logformat_driver --random --seed S --cases K   random executions
// Output: ndjson trace on stdout, see specs/logformat/TraceLogFormat.tla for the event format.
// The driver only records: arguments, what the real objects return / write.  It computes no expected text.
#include <pthread.h>
#include <unistd.h>
#include <ctime>
#include <memory>
#include <set>
#include <sstream>
#include <vector>
#include "common/vharness.hpp"
#include "celma/log/logging.hpp"
#include "celma/log/log_attributes.hpp"
#include "celma/log/detail/log.hpp"
#include "celma/log/detail/log_dest_stream.hpp"
#include "celma/log/detail/log_msg.hpp"
#include "celma/log/detail/log_scoped_attribute.hpp"
#include "celma/log/detail/stream_log.hpp"
#include "celma/log/formatting/creator.hpp"
#include "celma/log/formatting/format.hpp"

namespace clf = celma::log::formatting;
using celma::log::Logging;
using celma::log::LogAttributes;
using celma::log::LogClass;
using celma::log::LogLevel;
using celma::log::detail::LogMsg;

// read access to the stored definition (the way the repository's own tests do it)
class DefAccess : public clf::Definition {
public:
   size_t size() const { return mFields.size(); }
   FieldTypes type(size_t i) const { return mFields[i].mType; }
   const std::string& constant(size_t i) const { return mFields[i].mConstant; }
   int width(size_t i) const { return mFields[i].mFixedWidth; }
   bool left(size_t i) const { return mFields[i].mAlignLeft; }
};

static const char* kindName(clf::Definition::FieldTypes t) {
   using F = clf::Definition::FieldTypes;
   switch (t) {
   case F::constant: return "const";
   case F::date: return "date";
   case F::time: return "time";
   case F::time_ms: return "time_ms";
   case F::time_us: return "time_us";
   case F::dateTime: return "date_time";
   case F::pid: return "pid";
   case F::threadId: return "tid";
   case F::lineNbr: return "line";
   case F::functionName: return "func";
   case F::fileName: return "file";
   case F::msgLevel: return "level";
   case F::msgClass: return "class";
   case F::errorNbr: return "errnbr";
   case F::text: return "text";
   case F::attribute: return "attr";
   }
   return "?";
}
static const char* const kPlainKinds[] = {"date", "time", "time_ms", "time_us", "date_time", "pid", "tid", "line",
                                          "func", "file", "level", "class", "errnbr", "text"};
static bool isClockKind(const std::string& k) {
   return k == "date" || k == "time" || k == "time_ms" || k == "time_us" || k == "date_time";
}

// destination that keeps a copy of the message it was given (ILogDest seam)
struct Recorder : celma::log::detail::ILogDest {
   std::vector<LogMsg>* got;
   explicit Recorder(std::vector<LogMsg>* g) : got(g) {}
   void message(const LogMsg& msg) override { got->push_back(msg); }
};

struct Msg {
   int lvl = 0, cls = 0;
   long long err = 0, line = 0, ts = 0;
   std::string path, func, text;
   int sel = 0;
};

struct Session {
   std::unique_ptr<DefAccess> def;
   std::unique_ptr<clf::Creator> creator;
   std::unique_ptr<std::ostringstream> oss, oss2;
   std::unique_ptr<celma::log::detail::LogDestStream> dest;
   std::unique_ptr<LogAttributes> outer, inner;
   std::vector<std::unique_ptr<celma::log::detail::ScopedAttribute>> scopes;
   std::vector<std::string> scopeNames;
   std::set<std::string> names;
   std::vector<std::string> madeKinds;   // kinds of the definition the current Format object was made from
   std::vector<LogMsg> recorded;
   celma::log::id_t logId = 0;
   bool made = false;
   unsigned nullToggle = 0;
   unsigned alt = 0;
   int userFields = 0;                   // fields added by the user (separators not counted)

   ~Session() { dropScopes(); }
   void dropScopes() {
      while (!scopes.empty()) scopes.pop_back();
      scopeNames.clear();
   }
   void reset() {
      dropScopes();
      dest.reset();
      creator.reset();
      inner.reset();
      outer.reset();
      Logging::reset();
      def.reset(new DefAccess);
      creator.reset(new clf::Creator(*def));
      oss.reset(new std::ostringstream);
      oss2.reset(new std::ostringstream);
      outer.reset(new LogAttributes);
      inner.reset(new LogAttributes(outer.get()));
      names.clear();
      madeKinds.clear();
      recorded.clear();
      made = false;
      logId = 0;
      userFields = 0;
      vj::Line().str("e", "Reset").emit();
   }
   std::string fieldsJson() const {
      std::string s = "[";
      for (size_t i = 0; i < def->size(); ++i) {
         if (i) s += ',';
         s += vj::Line().str("k", kindName(def->type(i))).bytes("c", def->constant(i)).num("w", def->width(i))
                 .boolean("l", def->left(i)).done();
      }
      return s + "]";
   }
   std::string visJson() const {
      std::string s = "[";
      bool first = true;
      for (const auto& n : names) {
         if (!first) s += ',';
         first = false;
         s += vj::Line().bytes("n", n).bytes("g", Logging::instance().getAttribute(n)).bytes("o", outer->getAttribute(n))
                 .bytes("i", inner->getAttribute(n)).done();
      }
      return s + "]";
   }
   // a C string in an exactly sized heap block, or NULL
   struct CStr {
      std::unique_ptr<char[]> p;
      CStr(const std::string& s, bool null) {
         if (!null) { p.reset(new char[s.size() + 1]); memcpy(p.get(), s.c_str(), s.size() + 1); }
      }
      const char* get() const { return p.get(); }
   };
   bool pickNull(const std::string& s) { return s.empty() && (nullToggle++ % 2 == 0); }

   // ---- builder
   void newCreator(const std::string& s) {
      const bool null = pickNull(s);
      CStr c(s, null);
      creator.reset();
      creator.reset(new clf::Creator(*def, c.get()));
      vj::Line().str("e", "NewCreator").bytes("s", s).boolean("null", null).raw("fields", fieldsJson()).emit();
   }
   void width(long n) {
      // the stream operator and the member function are two spellings of the same operation
      if (alt++ % 2 == 0) *creator << static_cast<int>(n);
      else creator->setFixedWidth(static_cast<int>(n));
      vj::Line().str("e", "Width").num("n", n).raw("fields", fieldsJson()).emit();
   }
   void left() {
      if (alt++ % 2 == 0) *creator << clf::left;
      else creator->alignLeft();
      vj::Line().str("e", "Left").raw("fields", fieldsJson()).emit();
   }
   void formatString(const std::string& f) {
      *creator << clf::formatString(f);
      vj::Line().str("e", "FormatString").bytes("f", f).raw("fields", fieldsJson()).emit();
   }
   void separator(const std::string& s) {
      const bool null = pickNull(s);
      CStr c(s, null);
      if (alt++ % 2 == 0) *creator << clf::separator(c.get());
      else creator->setAutoSep(c.get());
      vj::Line().str("e", "Separator").bytes("s", s).boolean("null", null).raw("fields", fieldsJson()).emit();
   }
   void field(const std::string& k) {
      if (k == "level" && alt++ % 2 == 0) creator->field(clf::Definition::FieldTypes::msgLevel);
      else if (k == "text" && alt++ % 2 == 0) creator->field(clf::Definition::FieldTypes::text);
      else if (k == "date") *creator << clf::date;
      else if (k == "time") *creator << clf::time;
      else if (k == "time_ms") *creator << clf::time_ms;
      else if (k == "time_us") *creator << clf::time_us;
      else if (k == "date_time") *creator << clf::date_time;
      else if (k == "pid") *creator << clf::pid;
      else if (k == "tid") *creator << clf::thread_id;
      else if (k == "line") *creator << clf::line_nbr;
      else if (k == "func") *creator << clf::func_name;
      else if (k == "file") *creator << clf::filename;
      else if (k == "level") *creator << clf::level;
      else if (k == "class") *creator << clf::log_class;
      else if (k == "errnbr") *creator << clf::error_nbr;
      else if (k == "text") *creator << clf::text;
      else { fprintf(stderr, "unknown kind %s\n", k.c_str()); exit(3); }
      ++userFields;
      vj::Line().str("e", "Field").str("k", k).raw("fields", fieldsJson()).emit();
   }
   void constant(const std::string& t) {
      *creator << t;
      ++userFields;
      vj::Line().str("e", "Const").bytes("t", t).raw("fields", fieldsJson()).emit();
   }
   void attribute(const std::string& n) {
      names.insert(n);
      *creator << clf::attribute(n);
      ++userFields;
      vj::Line().str("e", "Attribute").bytes("name", n).raw("fields", fieldsJson()).emit();
   }
   void makeFormat() {
      // a stream destination used directly ...
      dest.reset(new celma::log::detail::LogDestStream(*oss));
      dest->setFormatter(new clf::Format(*def));
      // ... and one behind a log of the logging framework, next to a recording destination
      if (logId == 0) logId = Logging::instance().findCreateLog("vlog");
      auto* lg = Logging::instance().getLog(logId);
      lg->removeDestination("fmt");
      lg->removeDestination("rec");
      lg->addDestination("fmt", new celma::log::detail::LogDestStream(*oss2))->setFormatter(new clf::Format(*def));
      lg->addDestination("rec", new Recorder(&recorded));
      madeKinds.clear();
      for (size_t i = 0; i < def->size(); ++i) madeKinds.push_back(kindName(def->type(i)));
      made = true;
      vj::Line().str("e", "MakeFormat").raw("fields", fieldsJson()).emit();
   }
   bool clockFree() const {
      for (const auto& k : madeKinds) if (isClockKind(k)) return false;
      return true;
   }

   // ---- attributes
   void addGlobal(const std::string& n, const std::string& v) {
      names.insert(n);
      Logging::instance().addAttribute(n, v);
      vj::Line().str("e", "AddGlobal").bytes("name", n).bytes("value", v).raw("vis", visJson()).emit();
   }
   void removeGlobal(const std::string& n) {
      names.insert(n);
      Logging::instance().removeAttribute(n);
      vj::Line().str("e", "RemoveGlobal").bytes("name", n).raw("vis", visJson()).emit();
   }
   void enterScope(const std::string& n, const std::string& v) {
      names.insert(n);
      scopes.emplace_back(new celma::log::detail::ScopedAttribute(n, v));
      scopeNames.push_back(n);
      vj::Line().str("e", "EnterScope").bytes("name", n).bytes("value", v).raw("vis", visJson()).emit();
   }
   void leaveScope() {
      if (scopes.empty()) return;
      const std::string n = scopeNames.back();
      scopes.pop_back();
      scopeNames.pop_back();
      vj::Line().str("e", "LeaveScope").bytes("name", n).raw("vis", visJson()).emit();
   }
   LogAttributes& cont(long c) { return c == 2 ? *inner : *outer; }
   void addMsg(long c, const std::string& n, const std::string& v) {
      names.insert(n);
      cont(c).addAttribute(n, v);
      vj::Line().str("e", "AddMsg").num("c", c).bytes("name", n).bytes("value", v).raw("vis", visJson()).emit();
   }
   void removeMsgLast(long c) {
      cont(c).removeAttribute();
      vj::Line().str("e", "RemoveMsgLast").num("c", c).raw("vis", visJson()).emit();
   }
   void removeMsg(long c, const std::string& n) {
      names.insert(n);
      cont(c).removeAttribute(n);
      vj::Line().str("e", "RemoveMsg").num("c", c).bytes("name", n).raw("vis", visJson()).emit();
   }

   // ---- delivering
   static std::string tidJson(pthread_t t) {
      unsigned long long v = static_cast<unsigned long long>(t);
      std::vector<int> nib;
      if (v == 0) nib.push_back(0);
      while (v != 0) { nib.insert(nib.begin(), static_cast<int>(v & 0xf)); v >>= 4; }
      std::string s = "[";
      for (size_t i = 0; i < nib.size(); ++i) { if (i) s += ','; s += std::to_string(nib[i]); }
      return s + "]";
   }
   // the message as its getters describe it (ts/ms/us only when they were set by the driver)
   static std::string msgJson(const LogMsg& msg, const std::string& path, int sel, bool withClock) {
      return vj::Line().num("lvl", static_cast<int>(msg.getLevel())).num("cls", static_cast<int>(msg.getClass()))
         .num("err", msg.getErrorNbr()).num("line", msg.getLineNbr()).bytes("path", path).bytes("file", msg.getFileName())
         .bytes("func", msg.getFunctionName()).bytes("text", msg.getText())
         .num("ts", withClock ? static_cast<long long>(msg.getTimestamp()) : 0)
         .num("ms", withClock ? msg.getTimeMilliSecs() : 0).num("us", withClock ? msg.getTimeMicroSecs() : 0)
         .num("pid", msg.getProcessId()).raw("tid", tidJson(msg.getThreadId())).num("sel", sel).done();
   }
   void render(const Msg& m) {
      if (!made) return;
      LogMsg msg(m.path, m.func.c_str(), static_cast<int>(m.line));
      msg.setLevel(static_cast<LogLevel>(m.lvl));
      msg.setClass(static_cast<LogClass>(m.cls));
      msg.setErrorNumber(static_cast<int>(m.err));
      msg.setText(m.text);
      msg.setTimestamp(static_cast<time_t>(m.ts));
      if (m.sel == 1) msg.setAttributes(*outer);
      else if (m.sel == 2) msg.setAttributes(*inner);
      oss->str("");
      dest->handleMessage(msg);
      vj::Line().str("e", "Render").raw("m", msgJson(msg, m.path, m.sel, true)).bytes("out", oss->str()).emit();
   }
   // the same through the stream interface of the framework; pieces: text or attribute value
   struct Piece { bool attr; std::string t; };
   void stream(const Msg& m, const std::vector<Piece>& pieces) {
      if (!made || !clockFree()) return;
      oss2->str("");
      recorded.clear();
      {
         celma::log::detail::StreamLog sl(logId, m.path, m.func.c_str(), static_cast<int>(m.line));
         if (m.sel == 1) sl << *outer;
         else if (m.sel == 2) sl << *inner;
         if (m.lvl != 0) sl << static_cast<LogLevel>(m.lvl);
         sl << static_cast<LogClass>(m.cls);
         sl << celma::log::detail::errnbr << static_cast<int>(m.err);
         for (const auto& p : pieces) {
            if (p.attr) { names.insert(p.t); sl << celma::log::attributeValue(p.t); }
            else sl << p.t;
         }
      }  // the message is sent when the object is destroyed
      std::string pj = "[";
      for (size_t i = 0; i < pieces.size(); ++i) {
         if (i) pj += ',';
         pj += vj::Line().boolean("a", pieces[i].attr).bytes("t", pieces[i].t).done();
      }
      pj += "]";
      const bool delivered = !recorded.empty();
      std::string mj;
      if (delivered) mj = msgJson(recorded.back(), m.path, m.sel, false);
      else {
         // nothing arrived: describe the message by what was put in, text empty
         LogMsg none(m.path, m.func.c_str(), static_cast<int>(m.line));
         none.setLevel(static_cast<LogLevel>(m.lvl));
         none.setClass(static_cast<LogClass>(m.cls));
         none.setErrorNumber(static_cast<int>(m.err));
         mj = msgJson(none, m.path, m.sel, false);
      }
      vj::Line().str("e", "Stream").raw("m", mj)
         .raw("in", vj::Line().num("lvl", m.lvl).num("cls", m.cls).num("err", m.err).num("line", m.line).done())
         .raw("pieces", pj).num("n", static_cast<long long>(recorded.size())).boolean("delivered", delivered)
         .bytes("out", oss2->str()).emit();
   }
};

// ---------------------------------------------------------------- script mode
static Msg msgOf(const vj::Value& v) {
   Msg m;
   m.lvl = static_cast<int>(v["lvl"].num());
   m.cls = static_cast<int>(v["cls"].num());
   m.err = v["err"].num();
   m.line = v["line"].num();
   m.ts = v["ts"].num();
   m.path = v["path"].bytes();
   m.func = v["func"].bytes();
   m.text = v["text"].bytes();
   m.sel = static_cast<int>(v["sel"].num());
   return m;
}

static int runScript(const char* script) {
   FILE* f = fopen(script, "r");
   if (!f) { fprintf(stderr, "cannot open %s\n", script); return 3; }
   Session s;
   std::string line;
   bool any = false;
   while (vj::getline(f, line)) {
      if (line.empty()) continue;
      const vj::Value a = vj::parse(line);
      const std::string n = a["n"].str();
      if (n == "Reset") { s.reset(); any = true; continue; }
      if (!any) { s.reset(); any = true; }
      if (n == "Field") s.field(a["t"].str());
      else if (n == "Const") s.constant(a["t"].bytes());
      else if (n == "Attribute") s.attribute(a["t"].bytes());
      else if (n == "Width") s.width(a["i"].num());
      else if (n == "Left") s.left();
      else if (n == "FormatString") s.formatString(a["t"].bytes());
      else if (n == "Separator") s.separator(a["t"].bytes());
      else if (n == "NewCreator") s.newCreator(a["t"].bytes());
      else if (n == "MakeFormat") s.makeFormat();
      else if (n == "AddGlobal") s.addGlobal(a["t"].bytes(), a["v"].bytes());
      else if (n == "RemoveGlobal") s.removeGlobal(a["t"].bytes());
      else if (n == "EnterScope") s.enterScope(a["t"].bytes(), a["v"].bytes());
      else if (n == "LeaveScope") s.leaveScope();
      else if (n == "AddMsg") s.addMsg(a["i"].num(), a["t"].bytes(), a["v"].bytes());
      else if (n == "RemoveMsgLast") s.removeMsgLast(a["i"].num());
      else if (n == "RemoveMsg") s.removeMsg(a["i"].num(), a["t"].bytes());
      else if (n == "Render") s.render(msgOf(a["m"]));
      else if (n == "Stream") {
         std::vector<Session::Piece> ps;
         const vj::Value& pv = a["p"];
         for (size_t i = 0; i < pv.size(); ++i) ps.push_back({pv[i]["a"].boolean(), pv[i]["t"].bytes()});
         s.stream(msgOf(a["m"]), ps);
      } else { fprintf(stderr, "unknown action %s\n", n.c_str()); fclose(f); return 3; }
   }
   fclose(f);
   return 0;
}

// ---------------------------------------------------------------- random mode
struct Gen {
   vh::Rng& r;
   explicit Gen(vh::Rng& rng) : r(rng) {}
   std::string word(int maxlen) {
      static const char cs[] = "abcdefghijklmnopqrstuvwxyzABCXYZ0123456789_-.:;,!?#+*/=()[]{}<>|&%$@^~'\"\\";
      std::string s;
      const int n = static_cast<int>(r.range(1, maxlen));
      for (int i = 0; i < n; ++i) s.push_back(cs[r.below(sizeof cs - 1)]);
      return s;
   }
   // empty, one word, several words, leading/trailing/double blanks, bytes above 127, long
   std::string text() {
      switch (r.below(8)) {
      case 0: return "";
      case 1: return word(8);
      case 2: { std::string s; const int n = static_cast<int>(r.range(2, 5)); for (int i = 0; i < n; ++i) { if (i) s += ' '; s += word(6); } return s; }
      case 3: return " " + word(4) + "  " + word(3) + " ";
      case 4: { std::string s; const int n = static_cast<int>(r.range(1, 12)); for (int i = 0; i < n; ++i) s.push_back(static_cast<char>(r.range(1, 255))); return s; }
      case 5: { std::string s; const int n = static_cast<int>(r.range(20, 60)); for (int i = 0; i < n; ++i) s += (r.chance(1, 6) ? ' ' : static_cast<char>('a' + r.below(26))); return s; }
      case 6: return "%d %s %% %Y";
      default: return word(3) + "\t" + word(3) + "\n";
      }
   }
   std::string sepText() {
      static const char* const v[] = {"|", " ", ", ", " | ", "::", "\t", "-"};
      return v[r.below(7)];
   }
   std::string fmtString() {
      static const char dirs[] = "YmdHMSFT%";
      static const char lits[] = " -:./,;_TZabcxyz()[]0123456789";
      std::string s;
      const int n = static_cast<int>(r.range(1, 8));
      for (int i = 0; i < n; ++i) {
         if (r.chance(3, 5)) { s.push_back('%'); s.push_back(dirs[r.below(sizeof dirs - 1)]); }
         else s.push_back(lits[r.below(sizeof lits - 1)]);
      }
      if (r.chance(1, 10)) {       // long results (well beyond 128 characters)
         std::string l;
         const int rep = static_cast<int>(r.range(4, 30));
         for (int i = 0; i < rep; ++i) l += s;
         return l;
      }
      return s;
   }
   long long timestamp() {
      static const long long special[] = {0, 1, 59, 60, 3599, 3600, 86399, 86400, 86401, 951782399LL /* 2000-02-28 23:59:59 */,
         951782400LL, 951868799LL /* 2000-02-29 23:59:59 */, 951868800LL, 978307199LL /* 2000-12-31 23:59:59 */, 978307200LL,
         1078099199LL /* 2004-02-29 23:59:59 */, 1078099200LL, 1230767999LL, 1230768000LL, 1506525448LL, 1551398399LL /* 2019-02-28 */,
         1551398400LL, 2147483647LL, 2147483646LL, 2145916800LL /* 2038-01-01 */, 68255999LL /* 1972-02-29 23:59:59 */, 68256000LL};
      switch (r.below(4)) {
      case 0: return special[r.below(sizeof special / sizeof special[0])];
      case 1: { long long d = r.range(0, 24854); long long t = d * 86400 + r.range(-3, 3); return t < 0 ? 0 : (t > 2147483647LL ? 2147483647LL : t); }
      default: return r.range(0, 2147483647LL);
      }
   }
   long long number() {
      switch (r.below(6)) {
      case 0: return 0;
      case 1: return -r.range(1, 9);
      case 2: return r.range(1, 9);
      case 3: return r.range(10, 99999);
      case 4: return r.chance(1, 2) ? 2147483647LL : -2147483647LL;
      default: return r.range(-2147483647LL, 2147483647LL);
      }
   }
   std::string path() {
      switch (r.below(5)) {
      case 0: return word(6) + ".cpp";
      case 1: return "/" + word(4) + "/" + word(5) + ".cpp";
      case 2: return word(3) + "/" + word(3) + "/" + word(3) + ".hpp";
      case 3: return "./" + word(5);
      default: return word(4) + "/";
      }
   }
   std::string ident() {
      static const char cs[] = "abcdefghijklmnopqrstuvwxyz_ABC0123";
      std::string s;
      const int n = static_cast<int>(r.range(1, 12));
      for (int i = 0; i < n; ++i) s.push_back(cs[r.below(sizeof cs - 1 - (i == 0 ? 4 : 0))]);
      return s;
   }
   Msg message() {
      Msg m;
      m.lvl = static_cast<int>(r.below(7));
      m.cls = static_cast<int>(r.below(7));
      m.err = number();
      m.line = r.chance(1, 8) ? number() : r.range(1, 5000);
      m.ts = timestamp();
      m.path = path();
      m.func = ident();
      m.text = text();
      m.sel = static_cast<int>(r.below(3));
      return m;
   }
};

static void randomCase(vh::Rng& r, Session& s, long ops) {
   Gen g(r);
   s.reset();
   // names and values of this execution
   std::vector<std::string> nm;
   const int nnames = static_cast<int>(r.range(1, 3));
   for (int i = 0; i < nnames; ++i) nm.push_back(g.ident());
   if (r.chance(1, 4)) nm.push_back(nm[0] + "x");   // one name is a prefix of another
   long valueCnt = 0;
   auto value = [&]() { return (r.chance(1, 5) ? g.text() : g.word(6)) + "#" + std::to_string(++valueCnt); };
   const bool clocks = r.chance(1, 2);              // definitions without clock fields can use the stream interface
   if (r.chance(1, 3)) s.newCreator(r.chance(1, 4) ? std::string() : g.sepText());
   auto builderStep = [&]() {
      switch (r.below(14)) {
      case 0: s.width(r.chance(1, 5) ? 0 : r.chance(1, 8) ? r.range(21, 70) : r.range(1, 20)); break;
      case 1: s.left(); break;
      case 2: s.formatString(g.fmtString()); break;
      case 3: if (r.chance(1, 2)) s.separator(r.chance(1, 3) ? std::string() : g.sepText()); break;
      case 4: case 5: s.constant(r.chance(1, 2) ? g.sepText() : g.text()); break;
      case 6: case 7: s.attribute(nm[r.below(nm.size())]); break;
      case 8: if (r.chance(1, 10)) s.newCreator(r.chance(1, 3) ? std::string() : g.sepText()); break;
      default: {
         std::string k = kPlainKinds[r.below(sizeof kPlainKinds / sizeof kPlainKinds[0])];
         if (!clocks && isClockKind(k)) k = "text";
         s.field(k);
         break; }
      }
   };
   const int nfields = static_cast<int>(r.range(0, 12));
   int guard = 0;
   while (s.userFields < nfields && guard++ < 80) builderStep();
   s.makeFormat();
   for (long o = 0; o < ops; ++o) {
      switch (r.below(20)) {
      case 0: case 1: s.addGlobal(nm[r.below(nm.size())], value()); break;
      case 2: s.removeGlobal(nm[r.below(nm.size())]); break;
      case 3: case 4: if (s.scopes.size() < 4) s.enterScope(nm[r.below(nm.size())], value()); break;
      case 5: case 6: s.leaveScope(); break;
      case 7: case 8: s.addMsg(r.range(1, 2), nm[r.below(nm.size())], value()); break;
      case 9: if (r.chance(1, 2)) s.removeMsgLast(r.range(1, 2)); else s.removeMsg(r.range(1, 2), nm[r.below(nm.size())]); break;
      case 10: if (r.chance(1, 3)) { builderStep(); if (r.chance(1, 2)) s.makeFormat(); } break;
      case 11: case 12: case 13:
         if (s.clockFree()) {
            Msg m = g.message();
            std::vector<Session::Piece> ps;
            const int np = static_cast<int>(r.range(0, 4));
            for (int i = 0; i < np; ++i) {
               if (r.chance(1, 3)) ps.push_back({true, nm[r.below(nm.size())]});
               else ps.push_back({false, r.chance(1, 6) ? std::string() : g.text()});
            }
            s.stream(m, ps);
            break;
         }
         // fall through
      default: s.render(g.message()); break;
      }
   }
}

int main(int argc, char** argv) {
   vh::init();
   setenv("TZ", "UTC", 1);
   tzset();
   const char* script = vh::arg(argc, argv, "--script");
   int rc = 0;
   if (script != nullptr) {
      rc = runScript(script);
   } else {
      vh::Rng rng(static_cast<uint64_t>(vh::argnum(argc, argv, "--seed", 1)));
      const long cases = vh::argnum(argc, argv, "--cases", 10);
      const long ops = vh::argnum(argc, argv, "--ops", 40);
      Session s;
      for (long c = 0; c < cases; ++c) randomCase(rng, s, ops);
      s.dropScopes();
   }
   if (rc != 0) return rc;
   vh::end();
   return 0;
}
