// Conformance driver for the log macros / StreamLog / LogMsg / log_printf / extractFuncname  (extension check X02).
//   logmacros_driver --script FILE                        replay of TLC-generated action sequences
//   logmacros_driver --random --seed S --cases K --ops M  random histories far outside the model bounds
// Output: ndjson trace on stdout (event format: specs/logmacros/TraceLogMacros.tla).
// The driver only calls the real API and records arguments + observations; every expectation is TLC's.
#include <sys/types.h>
#include <sys/wait.h>
#include <unistd.h>
#include <chrono>
#include <ctime>
#include <functional>
#include <iomanip>
#include <map>
#include <memory>
#include <sstream>
#include <string>
#include <vector>
#include "common/vharness.hpp"
#include "celma/common/celma_exception.hpp"
#include "celma/common/extract_funcname.hpp"
#include "celma/log/detail/i_log_dest.hpp"
#include "celma/log/detail/log.hpp"
#include "celma/log/log_macros.hpp"
#include "celma/log/logging.hpp"

using celma::log::Logging;
using celma::log::LogLevel;
using celma::log::LogClass;
namespace cl = celma::log;
namespace cld = celma::log::detail;

// ---------------------------------------------------------------- configuration of an execution
struct AttrE { std::string n, v; };
struct LogCfg { std::string name; long max = 0; long bit = -1; };
struct Cfg {
   std::vector<LogCfg> logs;
   std::vector<AttrE> gattrs, outer, inner;
   std::string mk = "none";
   long m = 0;
};
static Cfg g_cfg;
static std::unique_ptr<cl::LogAttributes> g_outer, g_inner;
static std::vector<std::string> g_probe;     // attribute names of the configuration (asked from every delivered message)

// ---------------------------------------------------------------- recording destination
struct Got { long log; std::string file, func, text; long line, lvl, cls, err, pid, ts, t1; std::vector<AttrE> av; };
static std::vector<Got> g_got;
static long g_t0 = 0;
// the clock LogMsg documents (std::chrono::system_clock), in seconds; time() may lag behind it
static long nowSecs() { return static_cast<long>(std::chrono::system_clock::to_time_t(std::chrono::system_clock::now())); }

class RecDest final : public cld::ILogDest {
public:
   explicit RecDest(long k) : mLog(k) {}
   ~RecDest() override = default;
private:
   void message(const cld::LogMsg& msg) override {
      Got g;
      g.log = mLog;
      g.file = msg.getFileName();
      g.func = msg.getFunctionName();
      g.text = msg.getText();
      g.line = msg.getLineNbr();
      g.lvl = static_cast<long>(msg.getLevel());
      g.cls = static_cast<long>(msg.getClass());
      g.err = msg.getErrorNbr();
      g.pid = static_cast<long>(msg.getProcessId());
      g.ts = static_cast<long>(msg.getTimestamp());
      g.t1 = nowSecs();
      for (auto& n : g_probe) g.av.push_back({n, msg.getAttributeValue(n)});
      g_got.push_back(g);
   }
   long mLog;
};

// ---------------------------------------------------------------- JSON helpers
static std::string bytesJson(const std::string& s) {
   std::string r = "[";
   for (size_t i = 0; i < s.size(); ++i) { if (i) r += ','; r += std::to_string(static_cast<unsigned char>(s[i])); }
   return r + "]";
}
static std::string attrsJson(const std::vector<AttrE>& v) {
   std::string r = "[";
   for (size_t i = 0; i < v.size(); ++i) { if (i) r += ','; r += "{\"n\":" + bytesJson(v[i].n) + ",\"v\":" + bytesJson(v[i].v) + "}"; }
   return r + "]";
}
static std::string cfgJson(const Cfg& c) {
   std::string r = "{\"logs\":[";
   for (size_t i = 0; i < c.logs.size(); ++i) {
      if (i) r += ',';
      r += "{\"name\":" + bytesJson(c.logs[i].name) + ",\"max\":" + std::to_string(c.logs[i].max) + ",\"bit\":" + std::to_string(c.logs[i].bit) + "}";
   }
   r += "],\"gattrs\":" + attrsJson(c.gattrs) + ",\"outer\":" + attrsJson(c.outer) + ",\"inner\":" + attrsJson(c.inner);
   r += ",\"site\":{\"mk\":\"" + c.mk + "\",\"m\":" + std::to_string(c.m) + "}}";
   return r;
}
static std::string gotJson() {
   std::string r = "[";
   for (size_t i = 0; i < g_got.size(); ++i) {
      const Got& g = g_got[i];
      if (i) r += ',';
      r += "{\"log\":" + std::to_string(g.log) + ",\"file\":" + bytesJson(g.file) + ",\"func\":" + bytesJson(g.func) + ",\"line\":" + std::to_string(g.line)
           + ",\"lvl\":" + std::to_string(g.lvl) + ",\"cls\":" + std::to_string(g.cls) + ",\"err\":" + std::to_string(g.err) + ",\"text\":" + bytesJson(g.text)
           + ",\"pid\":" + std::to_string(g.pid) + ",\"t0\":" + std::to_string(g_t0) + ",\"ts\":" + std::to_string(g.ts) + ",\"t1\":" + std::to_string(g.t1)
           + ",\"av\":" + attrsJson(g.av) + "}";
   }
   return r + "]";
}
static std::string bitsJson(const std::vector<int64_t>& b) {
   std::string r = "[";
   for (size_t i = 0; i < b.size(); ++i) { if (i) r += ','; r += std::to_string(b[i]); }
   return r + "]";
}
static long bitOf(cl::id_t id) {
   for (int b = 0; b < 32; ++b) if (id == (1u << b)) return b;
   return -2;
}
static cl::id_t maskOf(const std::vector<int64_t>& bits) {
   cl::id_t m = 0;
   for (auto b : bits) if (b >= 0 && b < 32) m |= (1u << b);
   return m;
}

// ---------------------------------------------------------------- operations on a stream log
struct OpRec { std::string k; long n = 0; std::string s, f, p; };
static std::string opFields(const OpRec& o) {
   return "\"k\":\"" + o.k + "\",\"n\":" + std::to_string(o.n) + ",\"s\":" + bytesJson(o.s) + ",\"f\":" + bytesJson(o.f) + ",\"p\":" + bytesJson(o.p);
}
// i = position of the operation in its statement (used by the match expressions of known_findings.jsonl)
static std::string opsJson(const std::vector<OpRec>& ops) {
   std::string r = "[";
   for (size_t i = 0; i < ops.size(); ++i) { if (i) r += ','; r += "{\"i\":" + std::to_string(i) + "," + opFields(ops[i]) + "}"; }
   return r + "]";
}
static OpRec opFrom(const vj::Value& v) {
   OpRec o;
   o.k = v["k"].str(); o.n = v["n"].num(); o.s = v["s"].bytes(); o.f = v["f"].bytes(); o.p = v["p"].bytes();
   return o;
}

static void applyOp(cld::StreamLog& sl, const OpRec& o) {
   const std::string& k = o.k;
   if (k == "lvl") sl << static_cast<LogLevel>(o.n);
   else if (k == "cls") sl << static_cast<LogClass>(o.n);
   else if (k == "err") sl << cld::errnbr << static_cast<int>(o.n);
   else if (k == "errs") { if (o.n % 2 == 0) sl << cld::errnbr << o.s; else sl << cld::errnbr << o.s.c_str(); }
   else if (k == "str") sl << o.s;
   else if (k == "cstr") sl << o.s.c_str();
   else if (k == "chr") sl << static_cast<char>(o.n);
   else if (k == "int") sl << static_cast<int>(o.n);
   else if (k == "uns") sl << static_cast<unsigned int>(o.n);
   else if (k == "long") sl << static_cast<long>(o.n);
   else if (k == "bool") sl << (o.n != 0);
   else if (k == "oss") { std::ostringstream oss; oss << o.s; sl << oss; }
   else if (k == "attr") sl << cl::attributeValue(o.s);
   else if (k == "setattr") sl << (o.n == 1 ? *g_outer : *g_inner);
   else if (k == "clear") sl << cld::clear;
   else if (k == "exc") { const celma::common::CelmaRuntimeError e(o.f.c_str(), o.p.c_str(), static_cast<int>(o.n), o.s); sl << e; }
   else if (k == "excl") { const celma::common::CelmaLogicError e(o.f.c_str(), o.p.c_str(), static_cast<int>(o.n), o.s); sl << e; }
   else if (k == "excb") {
      const celma::common::CelmaRuntimeError e(o.f.c_str(), o.p.c_str(), static_cast<int>(o.n), o.s);
      sl << static_cast<const celma::common::ExceptionBase&>(e);
   }
}

// the operand of the one-statement macros: all operations of the statement; building it is observable (the LOG_LEVEL.. macros
// must not evaluate their operands when the level is discarded)
struct Ops { const std::vector<OpRec>* ops; };
static bool g_evald = false;
static Ops mkops(const std::vector<OpRec>& ops) { g_evald = true; return Ops{&ops}; }
static cld::StreamLog& operator<<(cld::StreamLog& sl, const Ops& o) {
   for (auto& op : *o.ops) applyOp(sl, op);
   return sl;
}

// ---------------------------------------------------------------- set up / reset
static bool g_pendingReset = false;      // script mode: the Reset event is written with the configuration of the first action
static cld::StreamLog* g_sl = nullptr;
static std::vector<OpRec> g_hist;        // operations applied to g_sl (echoed by the Destroy event)

static Cfg defaultCfg() {
   Cfg c;
   c.logs = {{"a", 0, -1}, {"b", 3, -1}};
   c.gattrs = {{"x", "gx"}, {"y", "gy1"}, {"y", "gy2"}};
   c.outer = {{"x", "ox"}, {"w", "ow"}};
   c.inner = {{"z", "iz"}, {"w", "iw"}};
   return c;
}
static std::vector<AttrE> attrsFrom(const vj::Value& v) {
   std::vector<AttrE> r;
   for (size_t i = 0; i < v.size(); ++i) r.push_back({v[i]["n"].bytes(), v[i]["v"].bytes()});
   return r;
}
static Cfg cfgFrom(const vj::Value& v) {
   if (v.kind != vj::Value::Obj) return defaultCfg();
   Cfg c;
   for (size_t i = 0; i < v["logs"].size(); ++i) c.logs.push_back({v["logs"][i]["name"].bytes(), static_cast<long>(v["logs"][i]["max"].num()), -1});
   c.gattrs = attrsFrom(v["gattrs"]); c.outer = attrsFrom(v["outer"]); c.inner = attrsFrom(v["inner"]);
   c.mk = v["site"]["mk"].str(); c.m = v["site"]["m"].num();
   return c;
}
static void setUp(const Cfg& c) {
   if (g_sl != nullptr) { g_got.clear(); delete g_sl; g_sl = nullptr; }
   Logging::reset();
   g_cfg = c;
   g_probe.clear();
   auto probe = [](const std::vector<AttrE>& v) {
      for (auto& e : v) { bool have = false; for (auto& p : g_probe) if (p == e.n) have = true; if (!have) g_probe.push_back(e.n); }
   };
   probe(c.gattrs); probe(c.outer); probe(c.inner);
   for (size_t k = 0; k < g_cfg.logs.size(); ++k) {
      LogCfg& l = g_cfg.logs[k];
      const cl::id_t id = Logging::instance().findCreateLog(l.name);
      l.bit = bitOf(id);
      cld::Log* lg = Logging::instance().getLog(id);
      lg->addDestination("rec", new RecDest(static_cast<long>(k + 1)));
      if (l.max > 0) lg->maxLevel(static_cast<LogLevel>(l.max));
   }
   for (auto& e : c.gattrs) Logging::instance().addAttribute(e.n, e.v);
   g_outer.reset(new cl::LogAttributes());
   for (auto& e : c.outer) g_outer->addAttribute(e.n, e.v);
   g_inner.reset(new cl::LogAttributes(g_outer.get()));
   for (auto& e : c.inner) g_inner->addAttribute(e.n, e.v);
   g_got.clear();
   vj::Line().str("e", "Reset").raw("cfg", cfgJson(g_cfg)).num("pid", static_cast<long long>(::getpid())).emit();
}

// ---------------------------------------------------------------- targets
struct Target { std::string by; std::vector<int64_t> ids; std::string name; };
static Target targetFrom(const vj::Value& a) { return Target{a["by"].str(), a["ids"].ints(), a["name"].bytes()}; }
static vj::Line& targetFields(vj::Line& l, const Target& t) { return l.str("by", t.by).raw("ids", bitsJson(t.ids)).bytes("name", t.name); }

// ---------------------------------------------------------------- stream log, step by step
static void doCreate(const Target& t, const std::string& file, const std::string& proto, long line) {
   const char* res = "ok";
   if (g_sl != nullptr) { g_got.clear(); delete g_sl; g_sl = nullptr; }
   g_hist.clear();
   g_t0 = nowSecs();
   try {
      if (t.by == "ids") g_sl = new cld::StreamLog(maskOf(t.ids), file, proto.c_str(), static_cast<int>(line));
      else g_sl = new cld::StreamLog(t.name, file, proto.c_str(), static_cast<int>(line));
   } catch (const std::exception&) { res = "exception"; g_sl = nullptr; }
   vj::Line l; l.str("e", "Create");
   targetFields(l, t).bytes("file", file).bytes("proto", proto).num("line", line).str("res", res).emit();
}
static void doOp(const OpRec& o) {
   if (g_sl == nullptr) return;
   const char* res = "ok";
   try { applyOp(*g_sl, o); } catch (const std::exception&) { res = "exception"; }
   g_hist.push_back(o);
   vj::Line().str("e", "Op").str("k", o.k).num("n", o.n).bytes("s", o.s).bytes("f", o.f).bytes("p", o.p).str("res", res).emit();
}
static void doDestroy() {
   if (g_sl == nullptr) return;
   g_got.clear();
   delete g_sl;
   g_sl = nullptr;
   vj::Line().str("e", "Destroy").raw("ops", opsJson(g_hist)).raw("got", gotJson()).str("res", "ok").emit();
}

// ---------------------------------------------------------------- the macros, used inside differently shaped functions
struct Site { const char* file; const char* proto; long line; };
static Site g_site;
struct MacroArgs { std::string m; Target t; long mlvl; long obj; std::vector<OpRec> ops; std::vector<AttrE> scoped; };

#define HERE() (g_site = Site{__FILE__, __PRETTY_FUNCTION__, __LINE__})
#define LEVELS(STMT, A) \
   switch (a.mlvl) { \
   case 0: STMT(A, undefined); break; case 1: STMT(A, fatal); break; case 2: STMT(A, error); break; case 3: STMT(A, warning); break; \
   case 4: STMT(A, info); break; case 5: STMT(A, debug); break; default: STMT(A, fullDebug); break; }
#define ST_LEVEL(A, L) LOG_LEVEL(A, L) << mkops(a.ops)
#define ST_LEVEL_ATTR(A, L) LOG_LEVEL_ATTR(A, L, attr) << mkops(a.ops)
// one line: every statement of the expansion reports the same __LINE__ as HERE()
#define MACRO_SITE() \
   do { HERE(); const cl::LogAttributes& attr = (a.obj == 2 ? *g_inner : *g_outer); const cl::id_t ids = maskOf(a.t.ids); const std::string& name = a.t.name; \
      if (a.m == "LOG") { if (a.t.by == "ids") LOG(ids) << mkops(a.ops); else LOG(name) << mkops(a.ops); } \
      else if (a.m == "LOG_ATTR") { if (a.t.by == "ids") LOG_ATTR(ids, attr) << mkops(a.ops); else LOG_ATTR(name, attr) << mkops(a.ops); } \
      else if (a.m == "LOG_LEVEL") { if (a.t.by == "ids") { LEVELS(ST_LEVEL, ids) } else { LEVELS(ST_LEVEL, name) } } \
      else { if (a.t.by == "ids") { LEVELS(ST_LEVEL_ATTR, ids) } else { LEVELS(ST_LEVEL_ATTR, name) } } \
   } while (0)

static void siteFree(const MacroArgs& a) { MACRO_SITE(); }
static std::vector<int> siteTemplateTypes(const MacroArgs& a, const std::map<int, std::string>&) { MACRO_SITE(); return {}; }
static char** sitePointerPointer(const MacroArgs& a) { MACRO_SITE(); return nullptr; }
static void siteLambda(const MacroArgs& a) { auto l = [&a](int) { MACRO_SITE(); }; l(1); }
namespace { void siteUnnamed(const MacroArgs& a) { MACRO_SITE(); } }
namespace x02 { namespace deep {
struct Widget {
   void emit(const MacroArgs& a) const { MACRO_SITE(); }
   static int build(const MacroArgs& a, int) { MACRO_SITE(); return 0; }
   bool operator()(const MacroArgs& a) { MACRO_SITE(); return true; }
   bool operator<(const MacroArgs& a) const { MACRO_SITE(); return false; }
   Widget& operator<<(const MacroArgs& a) { MACRO_SITE(); return *this; }
   Widget() = default;
   explicit Widget(const MacroArgs& a) { MACRO_SITE(); }
};
template <typename T> struct Box {
   template <typename U> std::vector<U> tm(const MacroArgs& a, const std::map<int, U>&) { MACRO_SITE(); return {}; }
   void plain(const MacroArgs& a) { MACRO_SITE(); }
};
std::ostream& operator<<(std::ostream& os, const MacroArgs& a) { MACRO_SITE(); return os; }
}}
static const int kShapes = 14;
static void runMacroSite(int shape, const MacroArgs& a) {
   x02::deep::Widget w;
   switch (shape % kShapes) {
   case 0: siteFree(a); break;
   case 1: siteTemplateTypes(a, {}); break;
   case 2: sitePointerPointer(a); break;
   case 3: siteLambda(a); break;
   case 4: siteUnnamed(a); break;
   case 5: w.emit(a); break;
   case 6: x02::deep::Widget::build(a, 0); break;
   case 7: w(a); break;
   case 8: (void)(w < a); break;
   case 9: w << a; break;
   case 10: { x02::deep::Widget w2(a); break; }
   case 11: { x02::deep::Box<std::pair<int, int>> b; b.tm<long>(a, {}); break; }
   case 12: { x02::deep::Box<std::vector<int>> b; b.plain(a); break; }
   default: { std::ostringstream os; x02::deep::operator<<(os, a); break; }
   }
}
static int g_shape = 0;
static void doMacro(const MacroArgs& a, int shape) {
   g_got.clear();
   g_evald = false;
   g_site = Site{"", "", 0};
   const char* res = "ok";
   g_t0 = nowSecs();
   try {
      // LOG_ATTRIBUTE: scoped attributes that live around the statement
      if (a.scoped.empty()) runMacroSite(shape, a);
      else {
         LOG_ATTRIBUTE(a.scoped[0].n, a.scoped[0].v);
         if (a.scoped.size() == 1) runMacroSite(shape, a);
         else {
            LOG_ATTRIBUTE(a.scoped[1].n, a.scoped[1].v);
            runMacroSite(shape, a);
         }
      }
   } catch (const std::exception&) { res = "exception"; }
   vj::Line l; l.str("e", "Macro").str("m", a.m);
   targetFields(l, a.t).num("mlvl", a.mlvl).num("obj", a.obj).raw("ops", opsJson(a.ops)).raw("scoped", attrsJson(a.scoped)).bytes("file", g_site.file).bytes("proto", g_site.proto)
      .num("line", g_site.line).boolean("evald", g_evald).raw("got", gotJson()).str("res", res).emit();
}

// ---------------------------------------------------------------- printf-like messages
struct PArg { std::string k; long n; std::string s; };
static std::string pargsJson(const std::vector<PArg>& v) {
   std::string r = "[";
   for (size_t i = 0; i < v.size(); ++i) { if (i) r += ','; r += "{\"k\":\"" + v[i].k + "\",\"n\":" + std::to_string(v[i].n) + ",\"s\":" + bytesJson(v[i].s) + "}"; }
   return r + "]";
}
template <typename T>
static void callPrintf(const std::string& file, const char* proto, int line, const T& spec, LogLevel ll, LogClass lc, const char* fmt, const std::vector<PArg>& p) {
#define PA(i) (p[i].k == "i")
#define PI(i) static_cast<int>(p[i].n)
#define PS(i) p[i].s.c_str()
   switch (p.size()) {
   case 0: cld::printf(file, proto, line, spec, ll, lc, fmt); break;
   case 1: if (PA(0)) cld::printf(file, proto, line, spec, ll, lc, fmt, PI(0)); else cld::printf(file, proto, line, spec, ll, lc, fmt, PS(0)); break;
   case 2:
      if (PA(0) && PA(1)) cld::printf(file, proto, line, spec, ll, lc, fmt, PI(0), PI(1));
      else if (PA(0)) cld::printf(file, proto, line, spec, ll, lc, fmt, PI(0), PS(1));
      else if (PA(1)) cld::printf(file, proto, line, spec, ll, lc, fmt, PS(0), PI(1));
      else cld::printf(file, proto, line, spec, ll, lc, fmt, PS(0), PS(1));
      break;
   case 3:
      if (PA(0) && PA(1) && PA(2)) cld::printf(file, proto, line, spec, ll, lc, fmt, PI(0), PI(1), PI(2));
      else if (PA(0) && PA(1)) cld::printf(file, proto, line, spec, ll, lc, fmt, PI(0), PI(1), PS(2));
      else if (PA(0) && PA(2)) cld::printf(file, proto, line, spec, ll, lc, fmt, PI(0), PS(1), PI(2));
      else if (PA(0)) cld::printf(file, proto, line, spec, ll, lc, fmt, PI(0), PS(1), PS(2));
      else if (PA(1) && PA(2)) cld::printf(file, proto, line, spec, ll, lc, fmt, PS(0), PI(1), PI(2));
      else if (PA(1)) cld::printf(file, proto, line, spec, ll, lc, fmt, PS(0), PI(1), PS(2));
      else if (PA(2)) cld::printf(file, proto, line, spec, ll, lc, fmt, PS(0), PS(1), PI(2));
      else cld::printf(file, proto, line, spec, ll, lc, fmt, PS(0), PS(1), PS(2));
      break;
   default:   // five integers
      cld::printf(file, proto, line, spec, ll, lc, fmt, PI(0), PI(1), PI(2), PI(3), PI(4));
      break;
   }
}
// the macro itself for a few level / class pairs and argument lists (its level / class are tokens)
namespace x02 { struct Printer {
   template <typename T> static bool viaMacro(const T& spec, long lvl, long cls, const char* fmt, const std::vector<PArg>& p) {
      if (p.size() == 0 && lvl == 4 && cls == 4) { HERE(); LOG_PRINTF(spec, info, application, fmt); return true; }
      if (p.size() == 2 && PA(0) && !PA(1) && lvl == 2 && cls == 1) { HERE(); LOG_PRINTF(spec, error, sysCall, fmt, PI(0), PS(1)); return true; }
      if (p.size() == 1 && !PA(0) && lvl == 1 && cls == 3) { HERE(); LOG_PRINTF(spec, fatal, communication, fmt, PS(0)); return true; }
      if (p.size() == 1 && PA(0) && lvl == 5 && cls == 2) { HERE(); LOG_PRINTF(spec, debug, data, fmt, PI(0)); return true; }
      if (p.size() == 2 && PA(0) && PA(1) && lvl == 6 && cls == 5) { HERE(); LOG_PRINTF(spec, fullDebug, accounting, fmt, PI(0), PI(1)); return true; }
      return false;
   }
}; }
static bool doPrintf(const Target& t, long lvl, long cls, const std::string& fmt, const std::vector<PArg>& p, std::string file, std::string proto, long line,
                     bool tryMacro) {
   g_got.clear();
   const char* res = "ok";
   const char* via = "func";
   g_t0 = nowSecs();
   try {
      bool done = false;
      if (tryMacro) {
         done = t.by == "ids" ? x02::Printer::viaMacro(maskOf(t.ids), lvl, cls, fmt.c_str(), p) : x02::Printer::viaMacro(t.name, lvl, cls, fmt.c_str(), p);
         if (done) { via = "macro"; file = g_site.file; proto = g_site.proto; line = g_site.line; }
      }
      if (!done) {
         if (t.by == "ids") callPrintf(file, proto.c_str(), static_cast<int>(line), maskOf(t.ids), static_cast<LogLevel>(lvl), static_cast<LogClass>(cls), fmt.c_str(), p);
         else callPrintf(file, proto.c_str(), static_cast<int>(line), t.name, static_cast<LogLevel>(lvl), static_cast<LogClass>(cls), fmt.c_str(), p);
      }
   } catch (const std::exception&) { res = "exception"; }
   vj::Line l; l.str("e", "Printf").str("via", via);
   targetFields(l, t).num("lvl", lvl).num("cls", cls).bytes("fmt", fmt).raw("args", pargsJson(p)).bytes("file", file).bytes("proto", proto).num("line", line)
      .raw("got", gotJson()).str("res", res).emit();
   return via[0] == 'm';
}

// ---------------------------------------------------------------- call-point macros (one call point per macro; an execution runs in a child process)
static void passOnce(cl::id_t ids, const std::vector<OpRec>& ops) { HERE(); LOG_LEVEL_ONCE(ids, info) << mkops(ops); }
static void passMax(cl::id_t ids, long m, const std::vector<OpRec>& ops) { HERE(); LOG_LEVEL_MAX(ids, info, m) << mkops(ops); }
static void passAfter(cl::id_t ids, long m, const std::vector<OpRec>& ops) { HERE(); LOG_LEVEL_AFTER(ids, info, m) << mkops(ops); }
static void passEvery(cl::id_t ids, long m, const std::vector<OpRec>& ops) { HERE(); LOG_LEVEL_EVERY(ids, info, m) << mkops(ops); }
static void doPass(const Target& t, const std::vector<OpRec>& ops) {
   g_got.clear();
   g_evald = false;
   const char* res = "ok";
   g_t0 = nowSecs();
   const cl::id_t ids = maskOf(t.ids);
   try {
      if (g_cfg.mk == "once") passOnce(ids, ops);
      else if (g_cfg.mk == "max") passMax(ids, g_cfg.m, ops);
      else if (g_cfg.mk == "after") passAfter(ids, g_cfg.m, ops);
      else passEvery(ids, g_cfg.m, ops);
   } catch (const std::exception&) { res = "exception"; }
   vj::Line l; l.str("e", "Pass");
   targetFields(l, t).raw("ops", opsJson(ops)).bytes("file", g_site.file).bytes("proto", g_site.proto).num("line", g_site.line)
      .boolean("evald", g_evald).raw("got", gotJson()).str("res", res).emit();
}

// ---------------------------------------------------------------- conversions, GET_LOG, extractFuncname
static void doConv(const std::string& d, long n, const std::string& s) {
   long rn = 0; std::string rs;
   if (d == "l2t") rs = cld::logLevel2text(static_cast<LogLevel>(n));
   else if (d == "c2t") rs = cld::logClass2text(static_cast<LogClass>(n));
   else if (d == "t2l") rn = static_cast<long>(cld::text2logLevel(s.c_str()));
   else rn = static_cast<long>(cld::text2logClass(s.c_str()));
   vj::Line().str("e", "Conv").str("d", d).num("n", n).bytes("s", s).num("rn", rn).bytes("rs", rs).emit();
}
static void doGetLog(const Target& t) {
   bool found = false;
   const char* res = "ok";
   try { found = (t.by == "ids" ? GET_LOG(maskOf(t.ids)) : GET_LOG(t.name)) != nullptr; } catch (const std::exception&) { res = "exception"; }
   vj::Line l; l.str("e", "GetLog");
   targetFields(l, t).boolean("found", found).str("res", res).emit();
}
static void doFuncname(const std::string& proto, const std::string& feat) {
   std::string r; bool thrown = false;
   // the prototype in an exactly sized heap block: reads behind its end are visible to ASan
   std::unique_ptr<char[]> blk(new char[proto.size() + 1]);
   memcpy(blk.get(), proto.c_str(), proto.size() + 1);
   try { r = celma::common::extractFuncname(std::string(blk.get(), proto.size())); } catch (const std::exception&) { thrown = true; }
   std::string fj = "[";
   size_t b = 0; bool first = true;
   while (b < feat.size()) { size_t e = feat.find(',', b); if (e == std::string::npos) e = feat.size(); if (!first) fj += ','; first = false; fj += "\"" + feat.substr(b, e - b) + "\""; b = e + 1; }
   fj += "]";
   vj::Line().str("e", "Funcname").bytes("proto", proto).bytes("res", r).boolean("thrown", thrown).raw("feat", fj).emit();
}

// ---------------------------------------------------------------- real functions of many shapes: their __PRETTY_FUNCTION__
struct RealFn { std::string proto; const char* feat; };
static std::vector<RealFn> g_real;
#define PF(feat) do { g_real.push_back(RealFn{__PRETTY_FUNCTION__, feat}); } while (0)
namespace shapes {
void f0() { PF(""); }
int f1(int) { PF(""); return 0; }
std::vector<int> f2() { PF(""); return {}; }
void f3(const std::vector<int>&) { PF(""); }
std::map<int, std::string> f4(const std::pair<int, int>&, std::map<int, std::vector<int>>*) { PF(""); return {}; }
char** f5() { PF(""); return nullptr; }
int&& f6(int&& x) { PF(""); return static_cast<int&&>(x); }
const char* const* f7() { PF(""); return nullptr; }
void f8() noexcept { PF(""); }
static void f9() { PF(""); }
void (*f10(int))(double) { PF(""); return nullptr; }
void f11(void (*)(int)) { PF(""); }
void f12(std::function<void(int)>) { PF(""); }
std::function<int(int)> f13() { PF("paren_in_targs"); return {}; }
int (&f14())[3] { static int a[3]; PF(""); return a; }
decltype(auto) f15() { PF("ret_decltype"); return 0; }
auto f16() -> std::vector<int> { PF(""); return {}; }
unsigned long long f17(unsigned long long) { PF(""); return 0; }
std::pair<std::vector<int>, std::map<int, std::pair<int, int>>>& f18() { static std::pair<std::vector<int>, std::map<int, std::pair<int, int>>> p; PF(""); return p; }
template <typename T> void t1(T) { PF(""); }
template <typename T> T t2() { PF(""); return T(); }
template <typename T, int N> std::vector<T> t3(const T (&)[N]) { PF(""); return {}; }
template <typename... A> void t4(A...) { PF(""); }
namespace {
void a1() { PF(""); }
struct AL { void m() { PF(""); } static AL* mk() { return nullptr; } static void sm() { PF(""); } };
AL* a2() { PF("ret_anon"); return nullptr; }
std::vector<int> a3(const std::vector<int>&) { PF(""); return {}; }
}
namespace ns { namespace in {
void g1() { PF(""); }
std::vector<std::string> g2(int) { PF(""); return {}; }
struct C {
   C() { PF(""); }
   ~C() { PF(""); }
   void m() const { PF(""); }
   void m2() & { PF(""); }
   void m3() && noexcept { PF(""); }
   static int sm(int) { PF(""); return 0; }
   virtual void vm() { PF(""); }
   bool operator()() { PF(""); return true; }
   bool operator()(int, int) const { PF(""); return true; }
   C& operator+=(int) { PF(""); return *this; }
   operator const char*() { PF(""); return nullptr; }
   operator std::vector<int>() { PF(""); return {}; }
   explicit operator bool() const { PF(""); return true; }
   bool operator<(const C&) const { PF(""); return false; }
   bool operator<=(const C&) const { PF(""); return false; }
   C& operator<<(int) { PF(""); return *this; }
   C& operator>>(int) { PF(""); return *this; }
   C* operator->() { PF(""); return this; }
   int operator[](int) { PF(""); return 0; }
   bool operator>(const C&) const { PF(""); return false; }
   C& operator<<=(int) { PF(""); return *this; }
   C& operator>>=(int) { PF(""); return *this; }
   bool operator==(const C&) const { PF(""); return true; }
   bool operator!=(const C&) const { PF(""); return false; }
   C operator-() { PF(""); return *this; }
   C& operator++() { PF(""); return *this; }
   C operator++(int) { PF(""); return *this; }
   template <typename U> void tm(U) { PF(""); }
   template <typename U> std::vector<U> tm2(const std::vector<U>&) { PF(""); return {}; }
   void* operator new(size_t n) { PF(""); return ::operator new(n); }
   void operator delete(void* p) { PF(""); ::operator delete(p); }
   bool operator,(int) { PF(""); return true; }
   bool operator!() { PF(""); return true; }
   C operator~() { PF(""); return *this; }
   C& operator=(const C&) { PF(""); return *this; }
   std::vector<int> operator*(const std::vector<int>&) { PF(""); return {}; }
   void oper() { PF(""); }
   void my_operator_x() { PF(""); }
   void operatorX() { PF(""); }
   char** pp() { PF(""); return nullptr; }
   void (*fp(int))(double) { PF(""); return nullptr; }
};
template <typename T> struct TC {
   TC() { PF(""); }
   ~TC() { PF(""); }
   void m() { PF(""); }
   template <typename U> U tm(U u) { PF(""); return u; }
   static std::vector<T> sm() { PF(""); return {}; }
   bool operator<(const TC&) const { PF(""); return false; }
   operator T() { PF(""); return T(); }
   TC<T>& operator<<(const T&) { PF(""); return *this; }
};
template <typename F> struct Fn;
template <typename R, typename... A> struct Fn<R(A...)> { R call(A...) { PF("paren_in_targs"); return R(); } };
template <typename A, typename B> struct TC2 { void m(A, B) { PF(""); } std::map<A, B> mm() const { PF(""); return {}; } };
std::ostream& operator<<(std::ostream& os, const C&) { PF(""); return os; }
bool operator<(const TC2<int, int>&, const TC2<int, int>&) { PF(""); return false; }
namespace operators { void inside() { PF(""); } }
}}
long operator""_x(unsigned long long) { PF(""); return 0; }
void lam() {
   auto l = [](int) { PF(""); }; l(1);
   auto l2 = [](std::vector<int>) -> std::vector<int> { PF(""); return {}; }; l2({});
}
struct D { void lm() { auto l = [this]() { PF(""); }; l(); } };
extern "C" void cfun() { PF(""); }
static void collect() {
   f0(); f1(0); f2(); f3({}); f4({}, nullptr); f5(); f6(1); f7(); f8(); f9(); f10(0); f11(nullptr); f12({}); f13(); f14(); f15(); f16(); f17(0); f18();
   t1(1); t1(std::vector<int>()); t2<int>(); t2<std::map<int, int>>(); int arr[3] = {0, 0, 0}; t3(arr); t4(1, 'c', std::string());
   a1(); AL().m(); AL::mk(); AL::sm(); a2(); a3({});
   ns::in::g1(); ns::in::g2(0);
   {
      ns::in::C c; c.m(); c.m2(); ns::in::C().m3(); ns::in::C::sm(1); c.vm(); c(); c(1, 2); c += 1; (void)static_cast<const char*>(c);
      (void)static_cast<std::vector<int>>(c); (void)static_cast<bool>(c); (void)(c < c); (void)(c <= c); c << 1; c >> 1; c.operator->(); c[0]; (void)(c > c);
      c <<= 1; c >>= 1; (void)(c == c); (void)(c != c); -c; ++c; c++; c.tm(1); c.tm2(std::vector<int>()); delete new ns::in::C; c.operator,(1); (void)!c; ~c;
      c = c; c * std::vector<int>(); c.oper(); c.my_operator_x(); c.operatorX(); c.pp(); c.fp(0);
      std::ostringstream os; os << c;
   }
   { ns::in::TC<int> t; t.m(); t.tm(1.0); t.sm(); (void)(t < t); (void)static_cast<int>(t); t << 1; ns::in::TC<std::vector<int>> t2; t2.m(); t2.sm(); }
   { ns::in::TC2<int, int> t; t.m(1, 2); (void)(t < t); t.mm(); ns::in::TC2<std::map<int, int>, std::pair<int, int>> t3; t3.m({}, {}); }
   ns::in::operators::inside(); ns::in::Fn<int(int, char)>().call(1, 'c');
   1_x; lam(); D().lm(); cfun();
}
}  // namespace shapes

// ---------------------------------------------------------------- generated prototypes (clang spelling), far larger than the model's grammar
struct GenProto { std::string proto, feat; };
static bool g_knownInputs = true;     // random mode: inputs that hit the known findings are generated in the first cases only
static GenProto genProto(vh::Rng& rng) {
   static const std::vector<std::string> pre = {"", "", "", "static ", "virtual ", "inline "};
   static const std::vector<std::string> ret = {"void ", "int ", "bool ", "unsigned long ", "char **", "int &&", "const char *const *", "std::vector<int> ",
      "std::map<int, std::string> ", "const ns::C &", "T ", "std::vector<T> ", "auto ", "ns::TC<std::pair<int, int>> *", "std::vector<int> &",
      "std::unique_ptr<lib::Node<K, V>, std::default_delete<lib::Node<K, V>>> ", "typename std::enable_if<B, T>::type ", "long long ",
      "std::basic_string<char> ", "const std::pair<const int, std::vector<std::string>> *&", "lib::Matrix<3, 4> ", "void *"};
   static const std::vector<std::string> qual = {"ns", "C", "TC<int>", "TC2<std::map<int, int>, std::pair<int, int>>", "in_1", "operators", "celma", "log", "detail",
      "Handler", "Storage<T, std::allocator<T>>", "_Impl", "x02", "Outer<Inner<Leaf<int>>>", "v1"};
   static const std::vector<std::string> name = {"f", "func_1", "run", "~C", "C", "operator()", "operator<", "operator<<", "operator->", "operator>>=", "operator+=",
      "operator[]", "operator const char *", "operator int", "operator new", "operator\"\"_x", "operatorX", "my_operator", "operator<=", "operator>", "operator==",
      "operator->*", "operator<=>", "operator bool", "operator,", "evalArguments", "x", "handle_2nd", "operator>>", "operator<<=", "operator!", "operator delete[]",
      "operator std::vector<int>", "operator&&", "operator|="};
   static const std::vector<std::string> par = {"", "int", "const std::vector<int> &", "void (*)(int)", "std::function<void (int)>", "T, U",
      "std::map<int, std::vector<int>> *, const std::pair<int, int> &", "int &&", "const T (&)[N]", "(anonymous namespace)::AL *", "const char *, ...",
      "std::basic_ostream<char> &, const ns::C &", "int (*)(const void *, const void *), void *", "bool (ns::C::*)(int) const", "A..."};
   static const std::vector<std::string> suf = {"", "", "", " const", " &", " &&", " const &", " volatile", " const volatile"};
   static const std::vector<std::string> tsuf = {"", "", "", " [T = int]", " [T = std::vector<int>, U = char]", " [A = std::map<int, int>, B = std::pair<int, int>]",
      " [T = int, N = 3]", " [K = std::basic_string<char>, V = std::function<int (int)>]", " [A = <int, char, std::basic_string<char>>]"};
   GenProto g;
   std::string q;
   // the unnamed namespace: as outermost qualifier or (less often) inside named namespaces
   const long nq = rng.range(0, 4);
   const long anonAt = rng.chance(1, 4) ? (rng.chance(2, 3) ? 0 : rng.range(0, nq)) : -1;
   const long fnq = g_knownInputs && rng.chance(1, 500) && nq > 0 ? rng.range(0, nq - 1) : -1;    // a class template instantiated with a function type
   for (long i = 0; i <= nq; ++i) {
      if (i == anonAt) q += "(anonymous namespace)::";
      if (i == nq) break;
      if (i == fnq) { q += "TC<std::function<void (int)>>::"; g.feat = "paren_in_targs"; }
      else q += rng.pick(qual) + "::";
   }
   const std::string nm = rng.pick(name);
   const bool special = nm == "~C" || nm == "C" || nm.compare(0, 9, "operator ") == 0;     // no return type is written
   const bool opcall = nm == "operator()";
   const std::string head = q + nm + "(" + rng.pick(par) + ")";
   const std::string tail = rng.pick(suf) + rng.pick(tsuf);
   const unsigned w = static_cast<unsigned>(rng.below(20));
   if (w == 0 && !opcall) g.proto = rng.pick(pre) + "void (*" + head + ")(double)" + tail;
   else if (w == 1 && !opcall) g.proto = rng.pick(pre) + "int (&" + head + ")[3]" + tail;
   else if (w == 2) g.proto = "auto " + head + "::(anonymous class)::operator()(" + rng.pick(par) + ") const" + rng.pick(tsuf);
   else {
      std::string r = special && rng.chance(1, 2) ? std::string() : rng.pick(ret);
      if (g_knownInputs && rng.chance(1, 400)) {
         const unsigned k = static_cast<unsigned>(rng.below(3));
         if (k == 0) { r = "std::function<int (int)> "; g.feat = "paren_in_targs"; }
         else if (k == 1) { r = "(anonymous namespace)::AL *"; g.feat = "ret_anon"; }
         else { r = "decltype(auto) "; g.feat = "ret_decltype"; }
      }
      g.proto = rng.pick(pre) + r + head + tail;
   }
   return g;
}

// ---------------------------------------------------------------- random values
static std::string randText(vh::Rng& rng, bool nul_free = true) {
   long len = rng.chance(1, 40) ? rng.range(200, 3000) : rng.chance(1, 8) ? 0 : rng.range(1, 24);
   std::string s;
   for (long i = 0; i < len; ++i) {
      unsigned c = rng.chance(1, 12) ? static_cast<unsigned>(rng.range(1, 255)) : static_cast<unsigned>(rng.range(32, 126));
      if (c == 0 && nul_free) c = 32;
      s.push_back(static_cast<char>(c));
   }
   return s;
}
static long randInt(vh::Rng& rng) {
   switch (rng.below(6)) {
   case 0: return 0;
   case 1: return rng.range(-9, 9);
   case 2: return rng.range(-100000, 100000);
   case 3: return 2147483647;
   case 4: return -2147483647;
   default: return rng.range(-2147483647, 2147483647);
   }
}
static std::string randPath(vh::Rng& rng) {
   static const std::vector<std::string> dirs = {"", "", "src/", "/usr/include/c++/12/", "../lib/detail/", "./", "a/b/c/d/e/", "/"};
   static const std::vector<std::string> files = {"unit.cpp", "x.hpp", "stream_log.cpp", "a", "file.with.dots.cc", "no_ext", "logmacros_driver.cpp"};
   return rng.pick(dirs) + (rng.chance(1, 6) ? rng.pick(dirs) : std::string()) + rng.pick(files);
}
static std::string randProto(vh::Rng& rng) {
   for (;;) {
      if (rng.chance(1, 3)) { const RealFn& r = g_real[rng.below(g_real.size())]; if (r.feat[0] == 0) return r.proto; continue; }
      GenProto g = genProto(rng);
      if (g.feat.empty()) return g.proto;
   }
}
static Target randTarget(vh::Rng& rng, bool single) {
   Target t;
   const size_t nl = g_cfg.logs.size();
   if (rng.chance(2, 3)) {
      t.by = "ids";
      if (single) t.ids.push_back(rng.chance(5, 6) && nl > 0 ? static_cast<int64_t>(rng.below(nl)) : rng.range(0, 31));
      else {
         const unsigned mode = static_cast<unsigned>(rng.below(5));
         for (int64_t b = 0; b < 32; ++b) {
            bool in = mode == 0 ? b < static_cast<int64_t>(nl) : mode == 1 ? rng.chance(1, 2) : mode == 2 ? (b < static_cast<int64_t>(nl) && rng.chance(1, 2)) : rng.chance(1, 10);
            if (in) t.ids.push_back(b);
         }
         if (mode == 4) { t.ids.clear(); if (nl > 0) t.ids.push_back(static_cast<int64_t>(rng.below(nl))); }
         if (rng.chance(1, 40)) t.ids.clear();
      }
   } else {
      t.by = "name";
      t.name = nl > 0 && rng.chance(6, 7) ? g_cfg.logs[rng.below(nl)].name : std::string("nolog");
      if (rng.chance(1, 40)) t.name.clear();
   }
   return t;
}
// a random operation; st tracks what the generator must know to stay inside the documented domain
struct GenState { bool text = false; bool lvlset = false; bool exc = false; };
static OpRec randOp(vh::Rng& rng, GenState& st, bool rare) {
   OpRec o;
   for (;;) {
      const unsigned r = static_cast<unsigned>(rng.below(100));
      if (r < 10) {
         // a level behind an exception that defaulted the level is a known finding: generated rarely
         if (st.exc && !st.lvlset && !rare) continue;
         o.k = "lvl"; o.n = st.lvlset || rng.chance(1, 12) ? rng.range(0, 6) : rng.range(1, 6); if (o.n != 0) st.lvlset = true; return o;
      }
      if (r < 18) { o.k = "cls"; o.n = rng.range(0, 6); return o; }
      if (r < 23) { o.k = "err"; o.n = randInt(rng); return o; }
      if (r < 26) { o.k = "errs"; o.n = rng.range(0, 1); o.s = std::to_string(randInt(rng)); return o; }
      if (r < 40) { o.k = "str"; o.s = randText(rng, false); st.text = true; return o; }
      if (r < 48) { o.k = "cstr"; o.s = randText(rng); st.text = true; return o; }
      if (r < 53) { o.k = "chr"; o.n = rng.range(1, 255); st.text = true; return o; }
      if (r < 62) { o.k = "int"; o.n = randInt(rng); st.text = true; return o; }
      if (r < 65) { o.k = "uns"; o.n = rng.chance(1, 3) ? 2147483647 : rng.range(0, 100000); st.text = true; return o; }
      if (r < 68) { o.k = "long"; o.n = randInt(rng); st.text = true; return o; }
      if (r < 72) { o.k = "bool"; o.n = rng.range(0, 1); st.text = true; return o; }
      if (r < 76) { o.k = "oss"; o.s = randText(rng, false); st.text = true; return o; }
      if (r < 84) { o.k = "attr"; o.s = !g_probe.empty() && rng.chance(5, 6) ? g_probe[rng.below(g_probe.size())] : std::string("nosuch"); st.text = true; return o; }
      if (r < 89) { o.k = "setattr"; o.n = rng.range(1, 2); return o; }
      if (r < 92) { o.k = "clear"; st.text = false; return o; }
      // the text of an exception is only generated as the first text of a message (appended or assigned: documentation unclear)
      if (st.text) continue;
      static const char* ek[] = {"exc", "excl", "excb"};
      o.k = ek[rng.below(3)]; o.n = rng.range(1, 99999); o.s = randText(rng); o.f = randPath(rng); o.p = randProto(rng);
      if (o.s.empty()) o.s = "e";
      st.text = true; st.exc = true;
      return o;
   }
}
static std::vector<OpRec> randOps(vh::Rng& rng, long maxn, bool levelPreset) {
   std::vector<OpRec> ops;
   GenState st;
   st.lvlset = levelPreset;
   const bool rare = g_knownInputs && rng.chance(1, 300);
   const long n = rng.chance(1, 10) ? 0 : rng.range(1, maxn);
   for (long i = 0; i < n; ++i) ops.push_back(randOp(rng, st, rare));
   return ops;
}
static Cfg randCfg(vh::Rng& rng) {
   Cfg c;
   const long nl = rng.chance(1, 10) ? 0 : rng.range(1, 5);
   for (long i = 0; i < nl; ++i) c.logs.push_back({"L" + std::to_string(i + 1), rng.chance(1, 2) ? 0 : rng.range(1, 6), -1});
   static const std::vector<std::string> names = {"x", "y", "z", "w", "color", "a b"};
   long vn = 0;
   auto fill = [&](std::vector<AttrE>& v, long maxn) {
      const long n = rng.range(0, maxn);
      for (long i = 0; i < n; ++i) v.push_back({rng.pick(names), "v" + std::to_string(++vn)});
   };
   fill(c.gattrs, 4); fill(c.outer, 3); fill(c.inner, 3);
   return c;
}
static void randPrintf(vh::Rng& rng) {
   struct Dir { const char* conv; char kind; };
   std::string fmt; std::vector<PArg> args;
   const bool five = rng.chance(1, 12);
   const long pieces = five ? 9 : rng.range(0, 6);
   long ndir = 0;
   for (long i = 0; i < pieces; ++i) {
      const long maxdir = five ? 5 : 3;
      if (ndir < maxdir && (rng.chance(1, 2) || (five && pieces - i <= maxdir - ndir))) {
         std::string d = "%";
         const unsigned c = five ? static_cast<unsigned>(rng.below(4)) : static_cast<unsigned>(rng.below(6));
         const bool numeric = c <= 3;
         if (rng.chance(1, 3)) d += '-'; else if (numeric && rng.chance(1, 3)) d += '0';
         if (rng.chance(1, 2)) d += std::to_string(rng.range(1, 12));
         PArg a{"i", 0, ""};
         switch (c) {
         case 0: d += 'd'; a.n = randInt(rng); break;
         case 1: d += 'i'; a.n = randInt(rng); break;
         case 2: d += 'u'; a.n = rng.range(0, 2147483647); break;
         case 3: d += 'x'; a.n = rng.range(0, 2147483647); break;
         case 4: d += 'c'; a.n = rng.range(33, 126); break;
         default: d += 's'; a.k = "s"; a.s = randText(rng); break;
         }
         fmt += d; args.push_back(a); ++ndir;
      } else if (rng.chance(1, 8)) fmt += "%%";
      else { std::string t = randText(rng); for (auto& ch : t) if (ch == '%') ch = '#'; fmt += t; }
   }
   if (five) while (args.size() < 5) { fmt += "%d"; args.push_back({"i", randInt(rng), ""}); }
   const long lvl = rng.range(0, 6), cls = rng.range(0, 6);
   doPrintf(randTarget(rng, rng.chance(1, 2)), lvl, cls, fmt, args, randPath(rng), randProto(rng), rng.range(1, 100000), rng.chance(1, 4));
}
static void randConv(vh::Rng& rng) {
   static const std::vector<std::string> texts = {"undefined", "Fatal Error", "Error", "Warning", "Info", "Debug", "Full Debug", "SysCall", "Data", "Communication",
      "Application", "Accounting", "Operator Action", "error", "FULL DEBUG", "operator action", "Erro", "Errors", "", " Info", "Info ", "bogus", "fatal", "Fatal  Error",
      "Comm", "A", "Warn", "F", "Dat", "Operator", "Full", "u"};
   const unsigned r = static_cast<unsigned>(rng.below(4));
   if (r == 0) doConv("l2t", rng.range(0, 6), "");
   else if (r == 1) doConv("c2t", rng.range(0, 6), "");
   else doConv(r == 2 ? "t2l" : "t2c", 0, rng.chance(1, 10) ? randText(rng) : rng.pick(texts));
}

static void randomStreamCase(vh::Rng& rng, long nops) {
   setUp(randCfg(rng));
   for (long i = 0; i < nops; ++i) {
      const unsigned r = static_cast<unsigned>(rng.below(100));
      if (r < 45) {
         doCreate(randTarget(rng, false), randPath(rng), randProto(rng), rng.range(0, 2147483647));
         if (g_sl != nullptr) {
            const std::vector<OpRec> ops = randOps(rng, 12, false);
            for (auto& o : ops) doOp(o);
            doDestroy();
         }
      } else if (r < 72) {
         MacroArgs a;
         static const char* ms[] = {"LOG", "LOG", "LOG_ATTR", "LOG_LEVEL", "LOG_LEVEL", "LOG_LEVEL_ATTR"};
         a.m = ms[rng.below(6)];
         const bool lvl = a.m == "LOG_LEVEL" || a.m == "LOG_LEVEL_ATTR";
         a.t = randTarget(rng, lvl);
         if (lvl && a.t.by == "ids" && a.t.ids.empty()) a.t.ids.push_back(0);
         a.mlvl = lvl ? rng.range(0, 6) : 0;
         a.obj = (a.m == "LOG_ATTR" || a.m == "LOG_LEVEL_ATTR") ? rng.range(1, 2) : 0;
         a.ops = randOps(rng, 8, lvl && a.mlvl != 0);
         if (rng.chance(1, 4)) {
            const long ns = rng.range(1, 2);
            for (long k = 0; k < ns; ++k) a.scoped.push_back({!g_probe.empty() && rng.chance(3, 4) ? g_probe[rng.below(g_probe.size())] : std::string("nosuch"), "s" + std::to_string(rng.range(1, 99))});
         }
         doMacro(a, static_cast<int>(rng.below(kShapes)));
      } else if (r < 84) randPrintf(rng);
      else if (r < 92) randConv(rng);
      else if (r < 96) doGetLog(randTarget(rng, true));
      else { GenProto g = genProto(rng); if (g.feat.empty()) doFuncname(g.proto, g.feat); }
   }
}
static void randomFuncnameCase(vh::Rng& rng, long nops) {
   setUp(defaultCfg());
   for (long i = 0; i < nops; ++i) {
      GenProto g = genProto(rng);
      doFuncname(g.proto, g.feat);
   }
}
// runs in a child process: the statics of the call points start from scratch
static void counterCase(vh::Rng& rng, long npass) {
   Cfg c = randCfg(rng);
   if (c.logs.empty()) c.logs.push_back({"L1", 0, -1});
   static const char* mks[] = {"once", "max", "after", "every"};
   c.mk = mks[rng.below(4)];
   c.m = c.mk == "every" ? rng.range(1, 6) : rng.range(0, 6);
   setUp(c);
   const long n = rng.range(1, npass);
   for (long i = 0; i < n; ++i) {
      Target t; t.by = "ids";
      t.ids.push_back(rng.chance(7, 8) ? static_cast<int64_t>(rng.below(c.logs.size())) : rng.range(0, 31));
      doPass(t, randOps(rng, 4, true));
   }
}
// fork, run fn in the child, wait; the child's events go to the same stdout
template <typename F> static bool inChild(F fn) {
   fflush(stdout);
   const pid_t pid = fork();
   if (pid < 0) return false;
   if (pid == 0) { fn(); fflush(stdout); _exit(0); }
   int status = 0;
   if (waitpid(pid, &status, 0) != pid) return false;
   return WIFEXITED(status) && WEXITSTATUS(status) == 0;
}

// ---------------------------------------------------------------- script mode
static void runAction(const vj::Value& a) {
   const std::string n = a["n"].str();
   if (g_pendingReset) { setUp(cfgFrom(a["cfg"])); g_pendingReset = false; }
   if (n == "Create") doCreate(targetFrom(a), a["file"].bytes(), a["proto"].bytes(), a["line"].num());
   else if (n == "Op") doOp(opFrom(a["op"]));
   else if (n == "Destroy") doDestroy();
   else if (n == "Macro") {
      MacroArgs m; m.m = a["m"].str(); m.t = targetFrom(a); m.mlvl = a["mlvl"].num(); m.obj = a["obj"].num();
      for (size_t i = 0; i < a["ops"].size(); ++i) m.ops.push_back(opFrom(a["ops"][i]));
      m.scoped = attrsFrom(a["scoped"]);
      doMacro(m, g_shape++);
   } else if (n == "Printf") {
      std::vector<PArg> p;
      for (size_t i = 0; i < a["args"].size(); ++i) p.push_back({a["args"][i]["k"].str(), static_cast<long>(a["args"][i]["n"].num()), a["args"][i]["s"].bytes()});
      if (doPrintf(targetFrom(a), a["lvl"].num(), a["cls"].num(), a["fmt"].bytes(), p, a["file"].bytes(), a["proto"].bytes(), a["line"].num(), true))
         doPrintf(targetFrom(a), a["lvl"].num(), a["cls"].num(), a["fmt"].bytes(), p, a["file"].bytes(), a["proto"].bytes(), a["line"].num(), false);
   } else if (n == "Conv") doConv(a["d"].str(), a["cn"].num(), a["cs"].bytes());
   else if (n == "GetLog") doGetLog(targetFrom(a));
   else if (n == "Pass") {
      std::vector<OpRec> ops;
      for (size_t i = 0; i < a["ops"].size(); ++i) ops.push_back(opFrom(a["ops"][i]));
      doPass(targetFrom(a), ops);
   } else if (n == "Funcname") {
      const std::string proto = a["proto"].bytes();
      doFuncname(proto, "");
      // the same bytes as function name of a log message
      Target t; t.by = "ids"; t.ids.push_back(0);
      doCreate(t, "dir/f.cpp", proto, 11);
      OpRec o; o.k = "str"; o.s = "m";
      doOp(o);
      doDestroy();
   }
}

int main(int argc, char** argv) {
   vh::init();
   setenv("TZ", "UTC", 1);
   shapes::collect();
   const char* script = vh::arg(argc, argv, "--script");
   if (script != nullptr) {
      FILE* f = fopen(script, "r");
      if (!f) { fprintf(stderr, "cannot open %s\n", script); return 3; }
      std::vector<std::string> lines;
      std::string line;
      while (vj::getline(f, line)) if (!line.empty()) lines.push_back(line);
      fclose(f);
      size_t i = 0;
      while (i < lines.size()) {
         // one execution: a Reset line and the actions up to the next Reset line
         size_t j = i + 1;
         while (j < lines.size() && lines[j].compare(0, 12, "{\"n\":\"Reset\"") != 0) ++j;
         if (lines[i].compare(0, 12, "{\"n\":\"Reset\"") != 0) { ++i; continue; }
         if (j > i + 1) {
            std::vector<vj::Value> acts;
            for (size_t k = i + 1; k < j; ++k) acts.push_back(vj::parse(lines[k]));
            auto body = [&] { g_pendingReset = true; for (auto& a : acts) runAction(a); };
            const bool callPoints = acts[0]["cfg"]["site"]["mk"].kind == vj::Value::Str && acts[0]["cfg"]["site"]["mk"].str() != "none";
            if (callPoints) { if (!inChild(body)) return 4; }
            else body();
         }
         i = j;
      }
   } else {
      const uint64_t seed = static_cast<uint64_t>(vh::argnum(argc, argv, "--seed", 1));
      const long cases = vh::argnum(argc, argv, "--cases", 10);
      const long ops = vh::argnum(argc, argv, "--ops", 40);
      const char* only = vh::arg(argc, argv, "--only", "");
      if (strcmp(only, "real") == 0) {
         // every real function once, in one execution
         setUp(defaultCfg());
         for (auto& r : g_real) doFuncname(r.proto, r.feat);
      } else {
         for (long c = 0; c < cases; ++c) {
            vh::Rng rng(seed * 1000003ull + static_cast<uint64_t>(c));
            g_knownInputs = c < 150;
            const unsigned r = static_cast<unsigned>(rng.below(100));
            if (strcmp(only, "funcname") == 0 || (only[0] == 0 && r < 8)) randomFuncnameCase(rng, ops * 3);
            else if (strcmp(only, "callpoint") == 0 || (only[0] == 0 && r < 25)) { if (!inChild([&] { counterCase(rng, ops); })) return 4; }
            else randomStreamCase(rng, ops);
         }
      }
   }
   if (g_sl != nullptr) { delete g_sl; g_sl = nullptr; }
   vh::end();
   return 0;
}
