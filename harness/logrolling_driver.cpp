// Conformance driver for the rolling log file policies celma::log::files::{Counted, MaxSize, Simple}
// (property C15).  Works on REAL files in a scratch directory.
//   logrolling_driver --dir D --via V --script FILE            replay of TLC-generated action sequences
//   logrolling_driver --dir D --via V --random --seed S --cases K --ops M
// V = policy  : the policy objects are called directly (open(), writeMessage())
//     handler : a message travels Logging::log() -> Log -> files::Handler<Policy>::message() -> stream formatter
//               -> policy -> file; open = new Handler (its constructor opens the policy) attached to a log of a
//               fresh Logging singleton, close/restart = the singleton with the Handler is destroyed
//     alt     : executions alternate between the two (even = policy, odd = handler; --phase 1 swaps)
// Output: ndjson trace on stdout (event format: specs/logrolling/TraceLogRolling.tla).
// The driver only records: which call was made, what the rename seam saw, and the projection
// (content of every generation file read back from disk).  It never computes an expected result.
#include <dirent.h>
#include <sys/stat.h>
#include <algorithm>
#include <fstream>
#include <memory>
#include <sstream>
#include <vector>
#include "common/vharness.hpp"
#include "celma/common/detail/file_funcs_base.hpp"
#include "celma/common/file_operations.hpp"
#include "celma/log/detail/log_msg.hpp"
#include "celma/log/filename/creator.hpp"
#include "celma/log/filename/definition.hpp"
#include "celma/log/files/counted.hpp"
#include "celma/log/files/max_size.hpp"
#include "celma/log/files/simple.hpp"
#include "celma/log/detail/i_format_stream.hpp"
#include "celma/log/detail/log.hpp"
#include "celma/log/files/handler.hpp"
#include "celma/log/logging.hpp"

namespace clf = celma::log::files;
namespace clfn = celma::log::filename;

static std::string gDir;               // scratch directory of this run
static const char* kPrefix = "log.";   // file name = log.<generation, 2 digits>.txt   (Simple: log.txt -> generation 0)
static const char* kSuffix = ".txt";

// ---------------------------------------------------------------- message text <-> id
static const char kDigits[] = "0123456789abcdefghijklmnopqrstuvwxyz";
static std::string idText(long id) {
   std::string s;
   do { s.insert(s.begin(), kDigits[id % 36]); id /= 36; } while (id > 0);
   return s;
}
static size_t idWidth(long id) { return idText(id).size(); }
// text of message `id` with exactly `len` bytes: id in base 36, padded with '.'
static bool makeText(long id, long len, std::string& out) {
   out = idText(id);
   if (static_cast<long>(out.size()) > len) return false;
   out.append(static_cast<size_t>(len) - out.size(), '.');
   return true;
}
static long decodeId(const std::string& line) {
   long id = 0;
   size_t i = 0;
   for (; i < line.size() && line[i] != '.'; ++i) {
      const char* p = strchr(kDigits, line[i]);
      if (p == nullptr || line[i] == '\0' || id > 50000000) return -1;
      id = id * 36 + (p - kDigits);
   }
   if (i == 0) return -1;
   for (; i < line.size(); ++i) if (line[i] != '.') return -1;
   return id;
}

// ---------------------------------------------------------------- projection: what is on disk
static long genOfName(const std::string& name) {   // file name without directory; -1 = not a generation file
   if (name == std::string(kPrefix) + "txt") return 0;        // Simple policy: log.txt
   const size_t pl = strlen(kPrefix), sl = strlen(kSuffix);
   if (name.size() <= pl + sl || name.compare(0, pl, kPrefix) != 0 || name.compare(name.size() - sl, sl, kSuffix) != 0) return -1;
   const std::string num = name.substr(pl, name.size() - pl - sl);
   if (num.empty() || num.size() > 6) return -1;
   for (char c : num) if (c < '0' || c > '9') return -1;
   return atol(num.c_str());
}
static long genOfPath(const std::string& path) {
   const size_t p = path.find_last_of('/');
   return genOfName(p == std::string::npos ? path : path.substr(p + 1));
}
static std::string projection() {
   std::vector<std::pair<long, std::string>> gens;
   std::vector<std::string> strange;
   if (DIR* d = opendir(gDir.c_str())) {
      while (dirent* e = readdir(d)) {
         const std::string n = e->d_name;
         if (n == "." || n == "..") continue;
         const long g = genOfName(n);
         if (g < 0) strange.push_back(n); else gens.emplace_back(g, n);
      }
      closedir(d);
   }
   std::sort(gens.begin(), gens.end());
   std::string js = "[";
   bool firstg = true;
   for (auto& gn : gens) {
      std::ifstream in(gDir + "/" + gn.second, std::ios::binary);
      std::stringstream ss;
      ss << in.rdbuf();
      const std::string content = ss.str();
      std::vector<long> ids, lens;
      size_t pos = 0;
      while (pos < content.size()) {
         const size_t nl = content.find('\n', pos);
         if (nl == std::string::npos) break;
         const std::string line = content.substr(pos, nl - pos);
         ids.push_back(decodeId(line));
         lens.push_back(static_cast<long>(line.size()));
         pos = nl + 1;
      }
      vj::Line l;
      l.num("g", gn.first).ints("ids", ids).ints("lens", lens).num("bytes", static_cast<long long>(content.size()))
         .num("tail", static_cast<long long>(content.size() - pos));   // bytes after the last newline (torn message)
      if (!firstg) js += ',';
      firstg = false;
      js += l.done();
   }
   // a file that is not a generation file appears as generation -1 (no specification state has one)
   for (auto& s : strange) {
      (void)s;
      if (!firstg) js += ',';
      firstg = false;
      js += "{\"g\":-1,\"ids\":[],\"lens\":[],\"bytes\":0,\"tail\":0}";
   }
   return js + "]";
}
static void cleanDir() {
   if (DIR* d = opendir(gDir.c_str())) {
      while (dirent* e = readdir(d)) {
         const std::string n = e->d_name;
         if (n == "." || n == "..") continue;
         ::remove((gDir + "/" + n).c_str());
      }
      closedir(d);
   }
}

// ---------------------------------------------------------------- rename seam (FileOperations::setFuncImpl)
struct CrashInjected {};   // "the process dies here": thrown out of the library call, the policy object is then abandoned
class Seam final : public celma::common::detail::FileFuncsBase {
public:
   long renames = 0;       // renames seen in the current library call
   long crashAfter = 0;    // > 0: die after that many renames of the current call
   int rename(const std::string& dest, const std::string& src) override {
      const int rc = ::rename(src.c_str(), dest.c_str());
      ++renames;
      vj::Line().str("e", "Rename").num("k", genOfPath(dest)).num("src", genOfPath(src)).num("rc", rc).raw("log", projection()).emit();
      if (crashAfter > 0 && renames == crashAfter) throw CrashInjected();
      return rc;
   }
   int remove(const std::string& file) override {
      const int rc = ::remove(file.c_str());
      vj::Line().str("e", "Remove").num("k", genOfPath(file)).num("src", -1).num("rc", rc).raw("log", projection()).emit();
      return rc;
   }
   int mkdir(const std::string& dir_name, int mode) override { return ::mkdir(dir_name.c_str(), static_cast<mode_t>(mode)); }
};
static Seam* gSeam = nullptr;

// ---------------------------------------------------------------- one execution
// stream formatter that writes the message text only: one line on disk = the text handed to Logging::log()
struct TextOnlyFormat final : celma::log::detail::IFormatStream {
   void format(std::ostream& out, const celma::log::detail::LogMsg& msg) const override { out << msg.getText(); }
};

struct Session {
   std::string kind = "counted";
   long limit = 1, G = 1;
   long nextId = 1;
   bool viaHandler = false;
   bool isOpen = false;
   std::unique_ptr<clf::PolicyBase> pol;     // via policy: the object under test
   clf::PolicyBase* rawPol = nullptr;        // the policy in use (via handler: owned by the Handler)
   celma::log::id_t logId = 0;

   void drop() {                             // the "process" ends: every object is destroyed
      pol.reset();
      if (viaHandler) {
         // removing the destination destroys the Handler and with it the policy (file closed); the singleton is
         // reset afterwards (Logging itself does not delete its Log objects)
         if (logId != 0) {
            try { celma::log::Logging::instance().getLog(logId)->removeDestination("file"); } catch (const std::exception&) {}
         }
         celma::log::Logging::reset();
         logId = 0;
      }
      rawPol = nullptr;
      isOpen = false;
   }
   void reset(const std::string& k, long lim, long g, bool handler) {
      drop();
      cleanDir();
      kind = k; limit = lim; G = g; nextId = 1; viaHandler = handler;
      vj::Line().str("e", "Reset").str("kind", kind).num("limit", limit).num("G", G).str("via", handler ? "handler" : "policy").emit();
   }
   clf::PolicyBase* make() const {
      clfn::Definition def;
      clfn::Creator c(def);
      if (kind == "simple") {
         c << (gDir + "/" + kPrefix + "txt");
         return new clf::Simple(def);
      }
      c << (gDir + "/" + kPrefix) << 2 << clfn::number << std::string(kSuffix);
      if (kind == "counted") return new clf::Counted(def, static_cast<size_t>(limit), static_cast<int>(G));
      return new clf::MaxSize(def, static_cast<size_t>(limit), static_cast<int>(G));
   }
   // the Handler takes ownership of the policy and opens it in its constructor
   celma::log::detail::ILogDest* makeHandler(clf::PolicyBase* p) const {
      celma::log::detail::ILogDest* h;
      if (kind == "simple") h = new clf::Handler<clf::Simple>(static_cast<clf::Simple*>(p));
      else if (kind == "counted") h = new clf::Handler<clf::Counted>(static_cast<clf::Counted*>(p));
      else h = new clf::Handler<clf::MaxSize>(static_cast<clf::MaxSize*>(p));
      h->setFormatter(new TextOnlyFormat());
      return h;
   }
   // generation number in logFileName() (the file the policy says it is writing to)
   long curGen() const { return rawPol ? genOfPath(rawPol->logFileName()) : -1; }
   // constructor contract: a definition without generation number is refused by Counted/MaxSize, an empty one by all
   void badDef(const char* what) {
      clfn::Definition def;
      clfn::Creator c(def);
      if (strcmp(what, "nogen") == 0) c << (gDir + "/nogen.txt");
      const char* res = "ok";
      try {
         std::unique_ptr<clf::PolicyBase> p;
         if (kind == "simple") p.reset(new clf::Simple(def));
         else if (kind == "counted") p.reset(new clf::Counted(def, static_cast<size_t>(limit), static_cast<int>(G)));
         else p.reset(new clf::MaxSize(def, static_cast<size_t>(limit), static_cast<int>(G)));
      } catch (const std::exception&) { res = "exception"; }
      vj::Line().str("e", "BadDef").str("def", what).str("res", res).emit();
   }
   // returns false when the injected crash happened
   bool open(long crashAfter) {
      if (isOpen) return true;
      vj::Line().str("e", "OpenBegin").emit();
      gSeam->renames = 0;
      gSeam->crashAfter = crashAfter;
      const char* res = "ok";
      try {
         // NEW objects: nothing is remembered from before the restart
         if (viaHandler) {
            celma::log::Logging::reset();
            logId = celma::log::Logging::instance().findCreateLog("c15");
            celma::log::detail::Log* l = celma::log::Logging::instance().getLog(logId);
            rawPol = make();
            celma::log::detail::ILogDest* h = nullptr;
            try { h = makeHandler(rawPol); } catch (...) { rawPol = nullptr; throw; }   // the Handler deleted the policy
            l->addDestination("file", h);
         } else {
            pol.reset(make());
            rawPol = pol.get();
            pol->open();
         }
         isOpen = true;
      } catch (const CrashInjected&) {
         crashed();
         return false;
      } catch (const std::exception&) { res = "exception"; isOpen = !viaHandler; }
      gSeam->crashAfter = 0;
      vj::Line().str("e", "OpenEnd").str("res", res).num("cur", curGen()).raw("log", projection()).emit();
      return true;
   }
   bool write(long len, long crashAfter) {
      if (!isOpen) return true;
      const long id = nextId++;
      std::string text;
      if (!makeText(id, len, text)) { fprintf(stderr, "message id %ld does not fit into %ld bytes\n", id, len); fflush(stdout); _exit(3); }
      vj::Line().str("e", "WriteBegin").num("id", id).num("len", len).emit();
      gSeam->renames = 0;
      gSeam->crashAfter = crashAfter;
      const char* res = "ok";
      celma::log::detail::LogMsg lm("logrolling_driver.cpp", "write", 1);
      try {
         if (viaHandler) {
            lm.setText(text);
            if (id & 1) celma::log::Logging::instance().log(logId, lm);
            else celma::log::Logging::instance().log("c15", lm);
         } else pol->writeMessage(lm, text);
      } catch (const CrashInjected&) {
         crashed();
         return false;
      } catch (const std::exception&) { res = "exception"; }
      gSeam->crashAfter = 0;
      vj::Line().str("e", "WriteEnd").str("res", res).num("cur", curGen()).raw("log", projection()).emit();
      return true;
   }
   void crashed() {
      gSeam->crashAfter = 0;
      drop();                    // the log file is closed while generations are rolled: nothing is buffered
      vj::Line().str("e", "Kill").raw("log", projection()).emit();
   }
   void close() {
      if (!isOpen) return;
      drop();
      vj::Line().str("e", "Close").raw("log", projection()).emit();
   }
};

// number of RollStep lines that follow script line i before a Crash line (0 = the call is not cut short)
static long crashPoint(const std::vector<vj::Value>& acts, size_t i) {
   long steps = 0;
   for (size_t j = i + 1; j < acts.size(); ++j) {
      const std::string n = acts[j]["n"].str();
      if (n == "RollStep") ++steps;
      else if (n == "Crash") return steps;
      else break;
   }
   return 0;
}

int main(int argc, char** argv) {
   vh::init();
   const char* dir = vh::arg(argc, argv, "--dir");
   if (dir == nullptr) { fprintf(stderr, "--dir missing\n"); return 3; }
   gDir = dir;
   if (::mkdir(gDir.c_str(), 0755) != 0 && errno != EEXIST) { fprintf(stderr, "cannot create %s\n", dir); return 3; }
   gSeam = new Seam();
   celma::common::FileOperations::setFuncImpl(gSeam);    // takes ownership
   Session s;
   const std::string via = vh::arg(argc, argv, "--via", "policy");
   long execNo = vh::argnum(argc, argv, "--phase", 0) & 1;     // alt: which execution is the first one via handler
   auto nextVia = [&]() { const bool h = via == "handler" || (via == "alt" && (execNo & 1)); ++execNo; return h; };
   const char* script = vh::arg(argc, argv, "--script");
   if (script != nullptr) {
      FILE* f = fopen(script, "r");
      if (!f) { fprintf(stderr, "cannot open %s\n", script); return 3; }
      std::vector<vj::Value> acts;
      std::string line;
      while (vj::getline(f, line)) if (!line.empty()) acts.push_back(vj::parse(line));
      fclose(f);
      for (size_t i = 0; i < acts.size(); ++i) {
         const auto& a = acts[i];
         const std::string n = a["n"].str();
         if (n == "Reset") {
            // the configuration is carried by the first action after the Reset
            if (i + 1 < acts.size()) s.reset(acts[i + 1]["kind"].str(), acts[i + 1]["limit"].num(1), acts[i + 1]["G"].num(1), nextVia());
         } else if (n == "OpenBegin") s.open(crashPoint(acts, i));
         else if (n == "WriteBegin") s.write(a["len"].num(1), crashPoint(acts, i));
         else if (n == "Close") s.close();
         // RollStep / OpenEnd / WriteEnd / Crash lines describe what the call above is expected to do
      }
   } else {
      vh::Rng rng(static_cast<uint64_t>(vh::argnum(argc, argv, "--seed", 1)));
      const long cases = vh::argnum(argc, argv, "--cases", 10);
      const long ops = vh::argnum(argc, argv, "--ops", 200);
      const bool crashes = vh::argnum(argc, argv, "--crashes", 1) != 0;
      for (long c = 0; c < cases; ++c) {
         const long kindSel = static_cast<long>(rng.below(9));
         const std::string kind = kindSel < 4 ? "counted" : kindSel < 8 ? "maxsize" : "simple";
         long limit = 0, G = 1;
         if (kind == "counted") { limit = rng.chance(1, 2) ? rng.range(1, 6) : rng.range(7, 50); G = rng.range(1, 5); }
         else if (kind == "maxsize") { limit = rng.chance(1, 2) ? rng.range(4, 64) : rng.range(65, 2048); G = rng.range(1, 5); }
         s.reset(kind, limit, G, nextVia());
         s.badDef("nogen");
         s.badDef("empty");
         s.open(0);
         // typical message length: a fraction of the byte limit, so that generations hold 1..many messages
         const long typical = kind == "maxsize" ? std::max<long>(1, limit / rng.range(2, 12)) : rng.range(1, 40);
         for (long o = 0; o < ops; ++o) {
            if (!s.isOpen) { s.open(crashes && rng.chance(1, 12) ? rng.range(1, G) : 0); continue; }
            if (rng.chance(1, 9)) { s.close(); continue; }
            long len;
            switch (rng.below(8)) {
            case 0: len = 1; break;
            case 1: len = typical * 2; break;
            case 2: len = kind == "maxsize" ? limit - rng.range(0, 3) : typical; break;     // around the limit
            case 3: len = kind == "maxsize" && rng.chance(1, 4) ? limit + rng.range(0, 5) : typical; break;   // longer than the limit
            default: len = rng.range(1, typical * 2); break;
            }
            const long w = static_cast<long>(idWidth(s.nextId));
            if (len < w) len = w;
            s.write(len, crashes && rng.chance(1, 10) ? rng.range(1, G) : 0);
         }
         s.close();
      }
   }
   s.drop();
   cleanDir();
   ::rmdir(gDir.c_str());
   vh::end();
   return 0;
}
