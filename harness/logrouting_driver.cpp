// Conformance driver for celma::log::Logging / Log / Filters / ILogDest  (property C14).
//   logrouting_driver --script FILE                       replay of TLC-generated action sequences
//   logrouting_driver --random --seed S --cases K --ops M random histories (up to 33 log creations)
// Output: ndjson trace on stdout (event format: specs/logrouting/TraceLogRouting.tla).
// The driver only calls the real API and records arguments + observations; every expectation is TLC's.
#include <array>
#include <memory>
#include <string>
#include <vector>
#include "common/vharness.hpp"
#include "celma/common/celma_exception.hpp"
#include "celma/log/detail/helper_function.hpp"
#include "celma/log/detail/i_log_dest.hpp"
#include "celma/log/detail/log.hpp"
#include "celma/log/detail/log_msg.hpp"
#include "celma/log/detail/stream_log.hpp"
#include "celma/log/filter/filters.hpp"
#include "celma/log/logging.hpp"

using celma::log::Logging;
using celma::log::LogLevel;
using celma::log::LogClass;
using celma::log::filter::Filters;
using celma::log::filter::detail::DuplicatePolicy;
namespace cld = celma::log::detail;

// ---------------------------------------------------------------- recording destination
struct Delivery { long log; std::string dest; long lvl; long cls; long seq; };
static std::vector<Delivery> g_sink;
static long g_seq = 0;

class RecDest final : public cld::ILogDest {
public:
   RecDest(long log, std::string name) : mLog(log), mName(std::move(name)) {}
   ~RecDest() override = default;
private:
   void message(const cld::LogMsg& msg) override {
      g_sink.push_back({mLog, mName, static_cast<long>(msg.getLevel()), static_cast<long>(msg.getClass()), g_seq});
   }
   long mLog;
   std::string mName;
};

// ---------------------------------------------------------------- what the driver knows (names only)
struct LogInfo { std::string name; celma::log::id_t id; std::vector<std::string> dests; };
static std::vector<LogInfo> g_logs;       // index k-1 = k-th log created
static unsigned long g_calls = 0;         // alternates between the id and the name access path

static const char* kClassNames[8] = {"undefined", "SysCall", "Data", "Communication", "Application",
                                     "Accounting", "Operator Action", "bogus"};

static long bitOf(celma::log::id_t id) {
   for (int b = 0; b < 32; ++b) if (id == (1u << b)) return b;
   return -2;
}
static celma::log::id_t maskOf(const std::vector<int64_t>& bits) {
   celma::log::id_t m = 0;
   for (auto b : bits) if (b >= 0 && b < 32) m |= (1u << b);
   return m;
}
static cld::Log* logPtr(long k) {
   if (k < 1 || static_cast<size_t>(k) > g_logs.size()) return nullptr;
   const LogInfo& li = g_logs[k - 1];
   return (g_calls++ & 1) ? Logging::instance().getLog(li.name) : Logging::instance().getLog(li.id);
}

static void doReset() {
   Logging::reset();
   Filters::setDuplicatePolicy(DuplicatePolicy::ignore);
   g_logs.clear();
   g_sink.clear();
   vj::Line().str("e", "Reset").emit();
}

static void doCreateLog(const std::string& name) {
   long bit = -1;
   const char* res = "ok";
   try {
      const celma::log::id_t id = Logging::instance().findCreateLog(name);
      bit = bitOf(id);
      bool known = false;
      for (auto& l : g_logs) if (l.name == name) known = true;
      if (!known) g_logs.push_back({name, id, {}});
   } catch (const std::exception&) { res = "exception"; }
   vj::Line().str("e", "CreateLog").str("name", name).num("id", bit).str("res", res).emit();
}

static void doAddDest(long k, const std::string& dn) {
   const char* res = "ok";
   bool same = false;
   try {
      cld::Log* l = logPtr(k);
      if (l == nullptr) res = "nolog";
      else {
         auto* rec = new RecDest(k, dn);
         same = (l->addDestination(dn, rec) == rec);
         g_logs[k - 1].dests.push_back(dn);
      }
   } catch (const std::exception&) { res = "exception"; }
   vj::Line().str("e", "AddDest").num("log", k).str("dest", dn).boolean("same", same).str("res", res).emit();
}

static void doRemoveDest(long k, const std::string& dn) {
   const char* res = "ok";
   try {
      cld::Log* l = logPtr(k);
      if (l == nullptr) res = "nolog";
      else {
         l->removeDestination(dn);
         auto& v = g_logs[k - 1].dests;
         for (size_t i = 0; i < v.size(); ++i) if (v[i] == dn) { v.erase(v.begin() + static_cast<long>(i)); break; }
      }
   } catch (const std::exception&) { res = "exception"; }
   vj::Line().str("e", "RemoveDest").num("log", k).str("dest", dn).str("res", res).emit();
}

static void doSetPolicy(const std::string& pol) {
   const char* res = "ok";
   DuplicatePolicy p = pol == "ignore" ? DuplicatePolicy::ignore : pol == "replace" ? DuplicatePolicy::replace
                     : pol == "exception" ? DuplicatePolicy::exception : static_cast<DuplicatePolicy>(10);
   try { Filters::setDuplicatePolicy(p); } catch (const std::exception&) { res = "exception"; }
   vj::Line().str("e", "SetPolicy").str("pol", pol).str("res", res).emit();
}

// toks: class tokens 0..7; `text` is what is passed to Filters::classes()
static void doSetFilter(long k, const std::string& dn, const std::string& t, long lvl, const std::vector<int64_t>& toks,
                        const std::string& text) {
   const char* res = "ok";
   try {
      cld::Log* l = logPtr(k);
      if (l == nullptr) res = "nolog";
      else {
         Filters* f = dn.empty() ? static_cast<Filters*>(l) : static_cast<Filters*>(l->getDestination(dn));
         if (t == "max") f->maxLevel(static_cast<LogLevel>(lvl));
         else if (t == "min") f->minLevel(static_cast<LogLevel>(lvl));
         else if (t == "lvl") f->level(static_cast<LogLevel>(lvl));
         else f->classes(text);
      }
   } catch (const std::exception&) { res = "exception"; }
   vj::Line().str("e", "SetFilter").num("log", k).str("dest", dn).str("t", t).num("lvl", lvl).ints("toks", toks)
      .str("res", res).emit();
}
static std::string classText(const std::vector<int64_t>& toks, vh::Rng* rng) {
   std::string s;
   for (size_t i = 0; i < toks.size(); ++i) {
      if (i) s += ',';
      std::string n = kClassNames[toks[i] < 0 || toks[i] > 7 ? 7 : toks[i]];
      if (rng != nullptr) {      // class names are matched without regard to case
         const int mode = static_cast<int>(rng->below(3));
         for (auto& ch : n) {
            if (mode == 1) ch = static_cast<char>(toupper(static_cast<unsigned char>(ch)));
            else if (mode == 2) ch = static_cast<char>(tolower(static_cast<unsigned char>(ch)));
         }
      }
      s += n;
   }
   return s;
}

using Msgs = std::vector<std::pair<long, long>>;
static Msgs allMsgs() { Msgs m; for (long l = 0; l <= 6; ++l) for (long c = 0; c <= 6; ++c) m.emplace_back(l, c); return m; }

static void doSend(const std::string& by, const std::vector<int64_t>& bits, const std::string& name, const Msgs& msgs) {
   g_sink.clear();
   size_t threw = 0;
   const celma::log::id_t mask = maskOf(bits);
   for (size_t i = 0; i < msgs.size(); ++i) {
      g_seq = static_cast<long>(i + 1);
      const LogLevel ll = static_cast<LogLevel>(msgs[i].first);
      const LogClass lc = static_cast<LogClass>(msgs[i].second);
      try {
         if (by == "mask" || by == "name") {
            cld::LogMsg msg(LOG_MSG_OBJECT_INIT);
            msg.setLevel(ll);
            msg.setClass(lc);
            msg.setText("m");
            if (by == "mask") Logging::instance().log(mask, msg);
            else Logging::instance().log(name, msg);
         } else if (by == "macro-mask") {
            cld::StreamLog(mask, LOG_MSG_OBJECT_INIT).self() << ll << lc << "m";
         } else {
            cld::StreamLog(name, LOG_MSG_OBJECT_INIT).self() << ll << lc << "m";
         }
      } catch (const std::exception&) { ++threw; }
   }
   std::string m = "[";
   for (size_t i = 0; i < msgs.size(); ++i) {
      if (i) m += ',';
      m += '[' + std::to_string(msgs[i].first) + ',' + std::to_string(msgs[i].second) + ']';
   }
   m += ']';
   std::string g = "[";
   for (size_t i = 0; i < g_sink.size(); ++i) {
      const Delivery& d = g_sink[i];
      if (i) g += ',';
      g += '[' + std::to_string(d.log) + ",\"" + d.dest + "\"," + std::to_string(d.lvl) + ',' + std::to_string(d.cls) + ','
           + std::to_string(d.seq) + ']';
   }
   g += ']';
   const char* res = threw == 0 ? "ok" : (threw == msgs.size() ? "exception" : "mixed");
   vj::Line().str("e", "Send").str("by", by).ints("mask", bits).str("name", name).raw("msgs", m).raw("got", g)
      .str("res", res).emit();
   g_sink.clear();
}

static void doPreCheck(const std::string& by, long bit, const std::string& name, const std::vector<int64_t>& levels) {
   std::vector<bool> disc;
   const char* res = "ok";
   try {
      for (auto l : levels) {
         const LogLevel ll = static_cast<LogLevel>(l);
         bool d;
         if (by == "id") d = cld::discard_by_level(static_cast<celma::log::id_t>(1u << bit), ll);
         else d = cld::discard_by_level(name, ll);
         disc.push_back(d);
      }
   } catch (const std::exception&) { res = "exception"; disc.clear(); }
   vj::Line().str("e", "PreCheck").str("by", by).num("bit", bit).str("name", name).ints("levels", levels)
      .bools("disc", disc).str("res", res).emit();
}

static void doGetLog(const std::string& by, const std::vector<int64_t>& bits, const std::string& name) {
   const char* res = "null";
   try {
      cld::Log* l = by == "mask" ? Logging::instance().getLog(maskOf(bits)) : Logging::instance().getLog(name);
      if (l != nullptr) res = "found";
   } catch (const std::exception&) { res = "exception"; }
   vj::Line().str("e", "GetLog").str("by", by).ints("mask", bits).str("name", name).str("res", res).emit();
}

// ---------------------------------------------------------------- random histories
static void randomCase(vh::Rng& rng, long ops) {
   doReset();
   // how many logs this history aims at: mostly a few, sometimes the id-bit limit and beyond
   const long aim = rng.chance(1, 5) ? rng.range(29, 33) : rng.range(1, 5);
   static const char* dnames[] = {"a", "b", "c", "d"};
   static const char* pols[] = {"ignore", "replace", "exception"};
   static const char* types[] = {"max", "min", "lvl", "cls"};
   long created = 0;
   auto randomBits = [&](bool single) {
      std::vector<int64_t> bits;
      if (single) { bits.push_back(rng.chance(4, 5) && !g_logs.empty() ? static_cast<int64_t>(rng.below(g_logs.size())) : rng.range(0, 31)); return bits; }
      const int mode = static_cast<int>(rng.below(4));
      for (int64_t b = 0; b < 32; ++b) {
         bool in;
         switch (mode) {
         case 0: in = b < static_cast<int64_t>(g_logs.size()); break;        // all existing logs
         case 1: in = rng.chance(1, 2); break;
         case 2: in = b < static_cast<int64_t>(g_logs.size()) && rng.chance(1, 2); break;
         default: in = rng.chance(1, 8); break;
         }
         if (in) bits.push_back(b);
      }
      return bits;
   };
   auto randomName = [&]() -> std::string {
      if (!g_logs.empty() && rng.chance(5, 6)) return g_logs[rng.below(g_logs.size())].name;
      return "nolog";
   };
   for (long o = 0; o < ops; ++o) {
      const unsigned r = static_cast<unsigned>(rng.below(100));
      if (g_logs.empty() || (created < aim && r < (aim > 20 ? 45u : 12u))) {
         // new log (or, now and then, an existing name again)
         if (!g_logs.empty() && rng.chance(1, 8)) doCreateLog(g_logs[rng.below(g_logs.size())].name);
         else {
            // a log may be asked for by its name before it exists (pre-check of a macro, GET_LOG, a message by name) and again
            // right after it was created: what was answered about the name before must not stick
            const std::string nm = "L" + std::to_string(created + 1);
            const bool early = rng.chance(1, 3);
            auto byName = [&](int how) {
               if (how == 0) doPreCheck("name", 0, nm, {0, 1, 2, 3, 4, 5, 6});
               else if (how == 1) doGetLog("name", {}, nm);
               else { Msgs one; one.emplace_back(rng.range(1, 6), rng.range(1, 6)); doSend(how == 2 ? "name" : "macro-name", {}, nm, one); }
            };
            if (early) byName(static_cast<int>(rng.below(4)));
            ++created; doCreateLog(nm);
            if (early || rng.chance(1, 4)) byName(static_cast<int>(rng.below(4)));
         }
         continue;
      }
      const long k = 1 + static_cast<long>(rng.below(g_logs.size()));
      LogInfo& li = g_logs[k - 1];
      if (r < 22) {
         std::vector<std::string> free;
         for (auto d : dnames) { bool used = false; for (auto& x : li.dests) if (x == d) used = true; if (!used) free.push_back(d); }
         if (!free.empty()) doAddDest(k, free[rng.below(free.size())]);
      } else if (r < 27) {
         if (!li.dests.empty()) doRemoveDest(k, std::string(li.dests[rng.below(li.dests.size())]));
      } else if (r < 35) {
         doSetPolicy(rng.chance(1, 12) ? "invalid" : pols[rng.below(3)]);
      } else if (r < 60) {
         std::string dn;
         if (!li.dests.empty() && rng.chance(2, 3)) dn = li.dests[rng.below(li.dests.size())];
         else if (rng.chance(1, 15)) dn = "zz";
         const std::string t = types[rng.below(4)];
         if (t != "cls") doSetFilter(k, dn, t, rng.range(0, 6), {}, "");
         else {
            std::vector<int64_t> toks;
            const int mode = static_cast<int>(rng.below(10));
            if (mode == 0) { /* empty list */ }
            else {
               const long n = rng.range(1, 6);
               for (long i = 0; i < n; ++i) toks.push_back(rng.range(1, 6));      // any order, repeats allowed
               if (mode == 1) toks[rng.below(toks.size())] = 0;                    // "undefined" is not a class one can name
               if (mode == 2) toks[rng.below(toks.size())] = 7;                    // not a class name at all
               if (mode == 3) toks.assign(1, 6);                                   // the last class alone
            }
            doSetFilter(k, dn, t, -1, toks, classText(toks, &rng));
         }
      } else if (r < 88) {
         static const char* bys[] = {"mask", "mask", "mask", "name", "macro-mask", "macro-name"};
         const std::string by = bys[rng.below(6)];
         Msgs msgs;
         if (rng.chance(1, 6)) msgs = allMsgs();
         else { const long n = rng.range(1, 6); for (long i = 0; i < n; ++i) msgs.emplace_back(rng.range(0, 6), rng.range(0, 6)); }
         std::vector<int64_t> bits;
         std::string name;
         if (by == "mask" || by == "macro-mask") { bits = randomBits(false); if (rng.chance(1, 20)) bits.clear(); }
         else { name = randomName(); if (by == "macro-name" && rng.chance(1, 20)) name.clear(); }
         doSend(by, bits, name, msgs);
      } else if (r < 96) {
         std::vector<int64_t> levels;
         if (rng.chance(1, 2)) for (int64_t l = 0; l <= 6; ++l) levels.push_back(l);
         else levels.push_back(rng.range(0, 6));
         if (rng.chance(1, 2)) doPreCheck("id", randomBits(true)[0], "", levels);
         else doPreCheck("name", 0, randomName(), levels);
      } else {
         if (rng.chance(1, 2)) doGetLog("mask", rng.chance(1, 2) ? randomBits(true) : randomBits(false), "");
         else doGetLog("name", {}, randomName());
      }
   }
   // closing observation of the whole configuration: every message to every log
   std::vector<int64_t> all;
   for (size_t i = 0; i < g_logs.size(); ++i) all.push_back(static_cast<int64_t>(i));
   if (!all.empty()) doSend("mask", all, "", allMsgs());
}

int main(int argc, char** argv) {
   vh::init();
   const char* script = vh::arg(argc, argv, "--script");
   if (script != nullptr) {
      FILE* f = fopen(script, "r");
      if (!f) { fprintf(stderr, "cannot open %s\n", script); return 3; }
      std::string line;
      while (vj::getline(f, line)) {
         if (line.empty()) continue;
         const vj::Value a = vj::parse(line);
         const std::string n = a["n"].str();
         if (n == "Reset") doReset();
         else if (n == "CreateLog") doCreateLog(a["name"].str());
         else if (n == "AddDest") doAddDest(a["log"].num(), a["dest"].str());
         else if (n == "RemoveDest") doRemoveDest(a["log"].num(), a["dest"].str());
         else if (n == "SetPolicy") doSetPolicy(a["pol"].str());
         else if (n == "SetFilter") {
            const auto toks = a["toks"].ints();
            doSetFilter(a["log"].num(), a["dest"].str(), a["t"].str(), a["lvl"].num(), toks, classText(toks, nullptr));
         } else if (n == "SendAll") doSend(a["by"].str(), a["mask"].ints(), a["name"].str(), allMsgs());
         else if (n == "PreAll") {
            const auto bits = a["mask"].ints();
            doPreCheck(a["by"].str(), bits.empty() ? 0 : bits[0], a["name"].str(), {0, 1, 2, 3, 4, 5, 6});
         } else if (n == "GetLog") doGetLog(a["by"].str(), a["mask"].ints(), a["name"].str());
      }
      fclose(f);
   } else {
      vh::Rng rng(static_cast<uint64_t>(vh::argnum(argc, argv, "--seed", 1)));
      const long cases = vh::argnum(argc, argv, "--cases", 10);
      const long ops = vh::argnum(argc, argv, "--ops", 100);
      for (long c = 0; c < cases; ++c) randomCase(rng, ops);
   }
   vh::end();
   return 0;
}
