// Conformance driver for the extension component X05: range strings and value filters.
//   rangefilter_driver --comp rs|gen|vf --script FILE                replay of TLC-generated action sequences
//   rangefilter_driver --comp rs|gen|vf --random --seed S --cases K  random executions far outside the model bounds
// comp rs : celma::common::RangeString<int>, its iterator, detail::RangeExpression   (specs/rangefilter/TraceRangeString.tla)
// comp gen: celma::common::detail::RangeGenerator<int>                               (specs/rangefilter/TraceRangeGen.tla)
// comp vf : celma::common::ValueFilter<int>, parseFilterString<int>()                (specs/rangefilter/TraceValueFilter.tla)
// Output: ndjson trace on stdout.  The driver only records what the library did; what is right is decided by TLC.
#include <memory>
#include <set>
#include <string>
#include <vector>
#include "common/vharness.hpp"
#include "celma/common/range_string.hpp"
#include "celma/common/parse_filter_string.hpp"
#include "celma/common/value_filter.hpp"

using celma::common::RangeString;
using celma::common::ValueFilter;
using celma::common::detail::RangeExpression;
using celma::common::detail::RangeGenerator;

static const long long kIntLimit = 2147483647LL;
static long long clampNum(long long v) { return (v > kIntLimit || v < -kIntLimit) ? -1 : v; }

// ---------------------------------------------------------------- range strings
struct RsSession {
   using It = RangeString<int>::const_iterator;
   std::unique_ptr<RangeString<int>> rs;
   std::string text;
   std::unique_ptr<It> it;      // the current iterator; reset after an exception
   long steps = 0;              // successful increments of the current iterator
   bool atEnd() const { return *it == rs->end(); }
   long long val() const { return atEnd() ? -1 : static_cast<int>(*it); }

   void reset(const std::string& s) {
      it.reset();
      text = s;
      rs.reset(new RangeString<int>(s));
      vj::Line().str("e", "Reset").bytes("s", s).emit();
   }
   void parseExpr() {
      std::unique_ptr<RangeExpression> re(new RangeExpression());
      bool ok = true;
      try { re->parseString(text); } catch (const std::exception&) { ok = false; }
      vj::Line l;
      l.str("e", "ParseExpr").str("res", ok ? "ok" : "exception");
      if (ok) {
         l.num("matched", static_cast<long long>(re->matchedExpression().length())).num("start", clampNum(re->startValue()))
            .boolean("hasEnd", re->hasRangeEnd()).num("end", re->hasRangeEnd() ? clampNum(re->endValue()) : -1)
            .boolean("hasInc", re->hasIncrement()).num("inc", re->hasIncrement() ? clampNum(re->incrementValue()) : -1)
            .boolean("hasExcl", re->hasExcludeExpr()).bytes("excl", re->hasExcludeExpr() ? re->excludeExpression() : std::string());
      } else {
         l.num("matched", 0).num("start", -1).boolean("hasEnd", false).num("end", -1).boolean("hasInc", false).num("inc", -1)
            .boolean("hasExcl", false).bytes("excl", std::string());
      }
      l.emit();
   }
   void logYield(const char* name, bool ok) {
      vj::Line l;
      l.str("e", name).str("res", ok ? "ok" : "exception").boolean("atEnd", ok ? atEnd() : false).num("val", ok ? val() : -1).emit();
      if (!ok) it.reset();
   }
   void begin(bool cvariant) {
      it.reset();
      steps = 0;
      bool ok = true;
      try { it.reset(new It(cvariant ? rs->cbegin() : rs->begin())); } catch (const std::exception&) { ok = false; }
      logYield("Begin", ok);
   }
   bool live() const { return it != nullptr; }
   void incr() {
      if (!live()) return;
      bool ok = true;
      try { ++(*it); ++steps; } catch (const std::exception&) { ok = false; }
      logYield("Incr", ok);
   }
   void postIncr() {
      if (!live()) return;
      bool ok = true;
      bool prevAtEnd = false;
      long long prevVal = -1;
      try {
         It prev((*it)++);
         ++steps;
         prevAtEnd = (prev == rs->end());
         prevVal = prevAtEnd ? -1 : static_cast<int>(prev);
      } catch (const std::exception&) { ok = false; }
      vj::Line().str("e", "PostIncr").str("res", ok ? "ok" : "exception").boolean("prevAtEnd", prevAtEnd).num("prevVal", prevVal)
         .boolean("atEnd", ok ? atEnd() : false).num("val", ok ? val() : -1).emit();
      if (!ok) it.reset();
   }
   void copyIt() {
      if (!live()) return;
      std::unique_ptr<It> c1(new It(*it));          // copy constructor
      bool eq = (*c1 == *it) && !(*c1 != *it);
      // the documented copy assignment cannot be instantiated for RangeString<>::const_iterator (its source member is a
      // const std::string, see notes_rangefilter.md); it is exercised on the iterator template over a plain std::string
      try {
         using It2 = celma::common::detail::RangeStringIterator<std::string, int>;
         std::unique_ptr<It2> m(new It2(text));
         for (long k = 0; k < steps; ++k) ++(*m);
         std::unique_ptr<It2> y(new It2());
         *y = *m;
         *y = *y;
         It2 e2;
         const bool yEnd = (*y == e2);
         eq = eq && (*y == *m) && (yEnd == (*c1 == rs->end())) && (yEnd || static_cast<int>(*y) == static_cast<int>(*c1));
      } catch (const std::exception&) { eq = false; }
      it = std::move(c1);                           // the run goes on with the copy
      vj::Line().str("e", "CopyIt").boolean("atEnd", atEnd()).num("val", val()).boolean("eq", eq).emit();
   }
   void iterAll() {
      std::vector<long long> vals;
      const char* res = "ok";
      try {
         size_t n = 0;
         for (auto i = rs->cbegin(); i != rs->cend(); ++i) {
            if (++n > 20000) {     // no end in sight: "runaway" when the values do not even change any more, else "long"
               res = vals[vals.size() - 1] == vals[vals.size() - 2] ? "runaway" : "long";
               vals.resize(8);
               break;
            }
            vals.push_back(static_cast<int>(i));
         }
      } catch (const std::exception&) { res = "exception"; }
      vj::Line().str("e", "IterAll").str("res", res).ints("vals", vals).emit();
   }
};

// ---------------------------------------------------------------- range generator
struct GenSession {
   using Gen = RangeGenerator<int>;
   std::unique_ptr<Gen> g;
   long long cur() const { return static_cast<int>(*g); }
   void single(long v) {
      g.reset();
      bool ok = true;
      try { g.reset(new Gen(static_cast<int>(v))); } catch (const std::exception&) { ok = false; }
      vj::Line().str("e", "Reset").str("kind", "single").num("a", v).num("b", v).num("inc", 1).str("res", ok ? "ok" : "exception")
         .num("cur", ok ? cur() : -1).emit();
   }
   void range(long a, long b, long inc, bool defInc) {
      g.reset();
      bool ok = true;
      try {
         if (defInc) g.reset(new Gen(static_cast<int>(a), static_cast<int>(b)));
         else g.reset(new Gen(static_cast<int>(a), static_cast<int>(b), static_cast<int>(inc)));
      } catch (const std::exception&) { ok = false; }
      vj::Line().str("e", "Reset").str("kind", "range").num("a", a).num("b", b).num("inc", defInc ? 1 : inc).str("res", ok ? "ok" : "exception")
         .num("cur", ok ? cur() : -1).emit();
   }
   void exclude(long v) {
      if (!g) return;
      bool ok = true;
      try { g->excludeValue(static_cast<int>(v)); } catch (const std::exception&) { ok = false; }
      vj::Line().str("e", "Exclude").num("v", v).str("res", ok ? "ok" : "exception").num("cur", cur()).emit();
   }
   void excludeMany(const std::vector<int>& vs) {
      if (!g) return;
      bool ok = true;
      try { g->excludeValues(vs.begin(), vs.end()); } catch (const std::exception&) { ok = false; }
      vj::Line().str("e", "ExcludeMany").ints("vs", vs).str("res", ok ? "ok" : "exception").num("cur", cur()).emit();
   }
   void incr(bool postfix) {
      if (!g) return;
      bool ok = true;
      long long prev = -1;
      try {
         if (postfix) { Gen p((*g)++); prev = static_cast<int>(p); }
         else { prev = cur(); ++(*g); }
      } catch (const std::exception&) { ok = false; }
      vj::Line().str("e", postfix ? "PostIncr" : "Incr").str("res", ok ? "ok" : "exception").num("prev", ok ? prev : -1).num("cur", cur())
         .num("end", static_cast<long long>(g->end())).emit();
   }
};

// ---------------------------------------------------------------- value filters
struct VfSession {
   std::unique_ptr<ValueFilter<int>> vf;
   long long size() const { return static_cast<long long>(vf->size()); }
   void reset() {
      vf.reset(new ValueFilter<int>());
      vj::Line().str("e", "Reset").emit();
   }
   template <typename F> static const char* guarded(F f) {
      try { f(); } catch (const std::exception&) { return "exception"; }
      return "ok";
   }
   void single(bool append, long v, bool inv) {
      const int iv = static_cast<int>(v);
      const char* res = guarded([&] { if (append) vf->appendSingleValueFilter(iv, inv); else vf->addSingleValueFilter(iv, inv); });
      vj::Line().str("e", append ? "AppendSingle" : "AddSingle").num("v", v).boolean("inv", inv).str("res", res).num("size", size()).emit();
   }
   void range(bool append, long lo, long hi, bool inv) {
      const int l = static_cast<int>(lo), h = static_cast<int>(hi);
      const char* res = guarded([&] { if (append) vf->appendRangeFilter(l, h, inv); else vf->addRangeFilter(l, h, inv); });
      vj::Line().str("e", append ? "AppendRange" : "AddRange").num("lo", lo).num("hi", hi).boolean("inv", inv).str("res", res).num("size", size()).emit();
   }
   void minimum(bool append, long v) {
      const int iv = static_cast<int>(v);
      const char* res = guarded([&] { if (append) vf->appendMinimumFilter(iv); else vf->addMinimumFilter(iv); });
      vj::Line().str("e", append ? "AppendMin" : "AddMin").num("v", v).str("res", res).num("size", size()).emit();
   }
   void maximum(bool append, long v) {
      const int iv = static_cast<int>(v);
      const char* res = guarded([&] { if (append) vf->appendMaximumFilter(iv); else vf->addMaximumFilter(iv); });
      vj::Line().str("e", append ? "AppendMax" : "AddMax").num("v", v).str("res", res).num("size", size()).emit();
   }
   void clear() {
      vf->clear();
      vj::Line().str("e", "Clear").num("size", size()).emit();
   }
   void empty() { vj::Line().str("e", "Empty").boolean("r", vf->empty()).emit(); }
   void sizeOp() { vj::Line().str("e", "Size").num("r", size()).emit(); }
   void str() {
      std::ostringstream oss;
      oss << *vf;                                   // operator<< is documented as str()
      const std::string viaStream = oss.str();
      const std::string direct = vf->str();
      vj::Line().str("e", "Str").bytes("t", direct == viaStream ? direct : direct + "\x01" + viaStream).emit();
   }
   void matches(long lo, long n) {
      std::vector<bool> r;
      const char* res = "ok";
      try {
         for (long i = 0; i < n; ++i) r.push_back(vf->matches(static_cast<int>(lo + i)));
      } catch (const std::exception&) { res = "exception"; r.clear(); }
      vj::Line().str("e", "Matches").num("lo", lo).str("res", res).bools("r", r).emit();
   }
   void parse(const std::string& t) {
      const char* res = "ok";
      try { *vf = celma::common::parseFilterString<int>(t); } catch (const std::exception&) { res = "exception"; }
      vj::Line().str("e", "ParseFilter").bytes("t", t).str("res", res).num("size", size()).emit();
   }
};

// ---------------------------------------------------------------- random texts
struct TextGen {
   vh::Rng& rng;
   int zeroIncBudget = 2;
   explicit TextGen(vh::Rng& r) : rng(r) {}
   long number() {
      switch (rng.below(8)) {
      case 0: return static_cast<long>(rng.below(10));
      case 1: return static_cast<long>(rng.below(100));
      case 2: return static_cast<long>(rng.below(1000));
      case 3: return static_cast<long>(rng.range(100000, 999999999));
      case 4: return static_cast<long>(rng.range(999999000, 999999999));
      default: return static_cast<long>(rng.below(300));
      }
   }
   std::string num(long v) { return (rng.chance(1, 12) ? std::string("0") : std::string()) + std::to_string(v); }
   // one range-string item; depth limits nested excludes
   std::string rsItem(int depth) {
      const long a = number();
      if (rng.chance(1, 3)) return num(a);
      long inc = rng.chance(1, 2) ? 1 : static_cast<long>(rng.range(1, 9));
      if (zeroIncBudget > 0 && rng.chance(1, 40)) { inc = 0; --zeroIncBudget; }   // known finding: a few per run are enough
      long cnt = static_cast<long>(rng.range(0, 24));
      long b = a + cnt * inc + static_cast<long>(rng.below(inc > 0 ? inc : 3));
      if (b > 999999999) b = 999999999;
      if (rng.chance(1, 30)) b = a > 3 ? a - static_cast<long>(rng.range(1, 3)) : a;
      std::string s = num(a) + "-" + num(b);
      if (inc != 1 || rng.chance(1, 6)) s += "[" + num(inc) + "]";
      if (depth > 0 && b - a >= 2 && rng.chance(1, 2)) {
         std::string ex;
         const int n = static_cast<int>(rng.range(1, 3));
         for (int i = 0; i < n; ++i) {
            if (i) ex += ",";
            long lo = a + 1 + static_cast<long>(rng.below(static_cast<uint64_t>(b - a - 1)));
            if (rng.chance(1, 20)) lo = rng.chance(1, 2) ? a : b;            // on the border: documented for the generator only
            if (rng.chance(1, 2) || lo + 1 >= b) ex += num(lo);
            else {
               long hi = lo + static_cast<long>(rng.below(static_cast<uint64_t>(b - lo)));
               if (hi >= b) hi = b - 1;
               ex += num(lo) + "-" + num(hi);
               if (rng.chance(1, 3)) ex += "[" + num(static_cast<long>(rng.range(1, 4))) + "]";
               if (depth > 1 && hi - lo >= 4 && rng.chance(1, 6))            // three levels of braces
                  ex += "{" + num(lo + 1) + "-" + num(hi - 1) + "{" + num(lo + 2) + "}}";
               else if (depth > 1 && hi - lo >= 2 && rng.chance(1, 3)) ex += "{" + num(lo + 1) + "}";
            }
         }
         s += "{" + ex + "}";
      }
      return s;
   }
   std::string rangeString() {
      std::string s;
      const int n = static_cast<int>(rng.range(1, 5));
      for (int i = 0; i < n; ++i) { if (i) s += ","; s += rsItem(2); }
      return s;
   }
   std::string filterDef() {
      std::string s;
      if (rng.chance(1, 3)) s += "!";
      switch (rng.below(5)) {
      case 0: s = "[" + num(number()); break;
      case 1: s = "]" + num(number()); break;
      case 2: case 3: s += num(number()); break;
      default: {
         long a = number(), b = a + static_cast<long>(rng.range(1, 40));
         if (rng.chance(1, 15)) b = a;
         if (rng.chance(1, 15)) b = a > 0 ? a - 1 : 0;
         if (b > 999999999) b = 999999999;
         s += num(a) + "-" + num(b);
      }
      }
      return s;
   }
   std::string filterString() {
      std::string s;
      const int n = static_cast<int>(rng.range(1, 4));
      for (int i = 0; i < n; ++i) {
         if (i) s += ",";
         const int m = static_cast<int>(rng.range(1, 3));
         for (int k = 0; k < m; ++k) { if (k) s += "+"; s += filterDef(); }
      }
      return s;
   }
   // damage a text: insert / delete / replace / duplicate characters of the alphabet of the two grammars
   std::string damage(std::string s, const char* alphabet) {
      const size_t na = strlen(alphabet);
      const int n = static_cast<int>(rng.range(1, 3));
      for (int i = 0; i < n; ++i) {
         const size_t pos = s.empty() ? 0 : static_cast<size_t>(rng.below(s.size() + 1));
         switch (rng.below(4)) {
         case 0: s.insert(pos, 1, alphabet[rng.below(na)]); break;
         case 1: if (pos < s.size()) s.erase(pos, 1); break;
         case 2: if (pos < s.size()) s[pos] = alphabet[rng.below(na)]; break;
         default: if (pos < s.size()) s.erase(pos); break;            // cut the tail
         }
      }
      // numerals of 18 and more digits are kept out (signed overflow in RangeExpression::readNumber, see notes_rangefilter.md)
      std::string r;
      int run = 0;
      for (char c : s) {
         run = isdigit(static_cast<unsigned char>(c)) ? run + 1 : 0;
         if (run <= 17) r.push_back(c);
      }
      return r;
   }
};

static std::string bytesOf(const vj::Value& v) { return v.bytes(); }

// Generator filter: an increment of zeros made by the damage (the known finding is hit through TextGen::zeroIncBudget only)
static bool zeroInc(const std::string& s) {
   for (size_t i = 0; i + 2 < s.size(); ++i) {
      if (s[i] != '[' || s[i + 1] != '0') continue;
      size_t k = i + 1;
      while (k < s.size() && s[k] == '0') ++k;
      if (k < s.size() && s[k] == ']') return true;
   }
   return false;
}

// Generator filter (not an oracle): does the text contain <m>-<n> with more than 100000 numbers in between?  Such a range
// inside braces makes the library enumerate it into a std::set before the first value is delivered (minutes, gigabytes);
// the documentation says nothing about sizes, the input class is kept out of the random texts (see notes_rangefilter.md).
static bool tooWide(const std::string& s) {
   size_t i = 0;
   while (i < s.size()) {
      if (!isdigit(static_cast<unsigned char>(s[i]))) { ++i; continue; }
      long long a = 0;
      while (i < s.size() && isdigit(static_cast<unsigned char>(s[i]))) a = a * 10 + (s[i++] - '0');
      if (i + 1 < s.size() && s[i] == '-' && isdigit(static_cast<unsigned char>(s[i + 1]))) {
         size_t k = i + 1;
         long long b = 0;
         while (k < s.size() && isdigit(static_cast<unsigned char>(s[k]))) b = b * 10 + (s[k++] - '0');
         if (b - a > 100000) return true;
      }
   }
   return false;
}

int main(int argc, char** argv) {
   vh::init();
   const std::string comp = vh::arg(argc, argv, "--comp", "rs");
   const char* script = vh::arg(argc, argv, "--script");
   if (script != nullptr) {
      FILE* f = fopen(script, "r");
      if (!f) { fprintf(stderr, "cannot open %s\n", script); return 3; }
      std::vector<vj::Value> acts;
      std::string line;
      while (vj::getline(f, line)) if (!line.empty()) acts.push_back(vj::parse(line));
      fclose(f);
      RsSession rs;
      GenSession gen;
      VfSession vf;
      unsigned flip = 0;
      for (size_t i = 0; i < acts.size(); ++i) {
         const auto& a = acts[i];
         const std::string n = a["n"].str();
         if (comp == "rs") {
            if (n == "Reset") { if (i + 1 < acts.size()) rs.reset(bytesOf(acts[i + 1]["s"])); }     // the text is carried by the next action
            else if (!rs.rs) continue;
            else if (n == "ParseExpr") rs.parseExpr();
            else if (n == "Begin") rs.begin((flip++ & 1) != 0);
            else if (n == "Incr") rs.incr();
            else if (n == "PostIncr") rs.postIncr();
            else if (n == "CopyIt") rs.copyIt();
            else if (n == "IterAll") rs.iterAll();
         } else if (comp == "gen") {
            if (n == "Reset") {
               if (i + 1 < acts.size()) {
                  const auto& c = acts[i + 1];
                  if (c["kind"].str() == "single") gen.single(c["a"].num());
                  else gen.range(c["a"].num(), c["b"].num(), c["inc"].num(), c["inc"].num() == 1 && (flip++ & 1) != 0);
               }
            } else if (n == "Exclude") gen.exclude(a["v"].num());
            else if (n == "Incr") gen.incr(false);
            else if (n == "PostIncr") gen.incr(true);
         } else {
            if (n == "Reset") vf.reset();
            else if (!vf.vf) continue;
            else if (n == "AddSingle" || n == "AppendSingle") vf.single(n[1] == 'p', a["v"].num(), a["inv"].boolean());
            else if (n == "AddRange" || n == "AppendRange") vf.range(n[1] == 'p', a["v"].num(), a["hi"].num(), a["inv"].boolean());
            else if (n == "AddMin" || n == "AppendMin") vf.minimum(n[1] == 'p', a["v"].num());
            else if (n == "AddMax" || n == "AppendMax") vf.maximum(n[1] == 'p', a["v"].num());
            else if (n == "Clear") vf.clear();
            else if (n == "Empty") vf.empty();
            else if (n == "Size") vf.sizeOp();
            else if (n == "Str") vf.str();
            else if (n == "Matches") vf.matches(a["v"].num(), a["hi"].num());
            else if (n == "ParseFilter") vf.parse(bytesOf(a["t"]));
         }
      }
   } else {
      vh::Rng rng(static_cast<uint64_t>(vh::argnum(argc, argv, "--seed", 1)));
      const long cases = vh::argnum(argc, argv, "--cases", 10);
      TextGen tg(rng);
      for (long c = 0; c < cases; ++c) {
         if (comp == "rs") {
            RsSession s;
            std::string t = tg.rangeString();
            if (rng.chance(1, 3)) {
               const std::string d = tg.damage(t, "0123456789-,[]{}-,[]{} x");
               if (!tooWide(d) && !zeroInc(d)) t = d;
            }
            s.reset(t);
            fflush(stdout);          // a text the library does not come back from is the last Reset line of the trace
            s.parseExpr();
            s.iterAll();
            s.begin(rng.chance(1, 2));
            for (int k = 0; k < 400 && s.live() && !s.atEnd(); ++k) {
               switch (rng.below(6)) {
               case 0: s.postIncr(); break;
               case 1: s.copyIt(); break;
               default: s.incr(); break;
               }
            }
            if (s.live() && rng.chance(1, 2)) s.copyIt();
            if (rng.chance(1, 4)) { s.begin(false); s.incr(); }
         } else if (comp == "gen") {
            GenSession s;
            const long a = tg.number();
            if (rng.chance(1, 5)) {
               s.single(a);
               if (rng.chance(1, 3)) s.exclude(a + static_cast<long>(rng.range(-1, 1)));
               s.incr(rng.chance(1, 2));
               s.incr(rng.chance(1, 2));
            } else {
               const long inc = rng.chance(1, 2) ? 1 : static_cast<long>(rng.range(1, 7));
               long b = a + static_cast<long>(rng.range(0, 40));
               if (rng.chance(1, 20)) b = a > 2 ? a - 1 : a;
               s.range(a, b, rng.chance(1, 30) ? -inc : inc, inc == 1 && rng.chance(1, 2));
               const int ne = static_cast<int>(rng.below(5));
               auto pick = [&]() { return a + static_cast<long>(rng.chance(1, 10) ? rng.range(-1, b - a + 1) : rng.range(1, b - a > 1 ? b - a - 1 : 1)); };
               if (rng.chance(1, 4)) {
                  std::vector<int> vs;
                  for (int k = 0; k < ne; ++k) vs.push_back(static_cast<int>(pick()));
                  s.excludeMany(vs);
               } else
                  for (int k = 0; k < ne; ++k) s.exclude(pick());
               for (int k = 0; k < 60 && s.g && static_cast<int>(*s.g) != s.g->end(); ++k) s.incr(rng.chance(1, 3));
               if (s.g && rng.chance(1, 2)) s.incr(rng.chance(1, 2));      // once more at the end: documented to throw
            }
         } else {
            VfSession s;
            s.reset();
            if (rng.chance(1, 2)) {
               std::string t = tg.filterString();
               if (rng.chance(1, 3)) t = tg.damage(t, "0123456789-,+![]-,+![] x");
               s.parse(t);
               s.sizeOp();
               s.empty();
               s.str();
               // windows around the numbers that occur in the text
               long numv = 0; bool in = false; int nd = 0;
               for (size_t k = 0; k <= t.size(); ++k) {
                  if (k < t.size() && isdigit(static_cast<unsigned char>(t[k])) && nd < 9) { numv = numv * 10 + (t[k] - '0'); in = true; ++nd; }
                  else { if (in) s.matches(numv > 2 ? numv - 2 : 0, 5); in = false; numv = 0; nd = 0; }
               }
               s.matches(static_cast<long>(rng.below(400)), 40);
               if (rng.chance(1, 3)) { s.parse(tg.filterString()); s.str(); s.matches(static_cast<long>(rng.below(300)), 30); }
            } else {
               const int ops = static_cast<int>(rng.range(1, 12));
               for (int o = 0; o < ops; ++o) {
                  const bool app = rng.chance(1, 2);
                  const long v = tg.number();
                  switch (rng.below(9)) {
                  case 0: case 1: s.single(app, v, rng.chance(1, 2)); break;
                  case 2: case 3: {
                     long hi = v + static_cast<long>(rng.range(1, 50));
                     if (rng.chance(1, 10)) hi = v;
                     if (rng.chance(1, 10)) hi = v > 0 ? v - 1 : 0;
                     s.range(app, v, hi, rng.chance(1, 2));
                     break; }
                  case 4: s.minimum(app, v); break;
                  case 5: s.maximum(app, v); break;
                  case 6: if (rng.chance(1, 4)) s.clear(); else s.sizeOp(); break;
                  case 7: s.str(); s.empty(); break;
                  default: s.matches(v > 3 ? v - 3 : 0, 8); break;
                  }
               }
               s.str();
               s.sizeOp();
               s.matches(static_cast<long>(rng.below(300)), 60);
            }
         }
      }
   }
   vh::end();
   return 0;
}
