// Minimal JSON reader/writer for the conformance drivers (no external dependency).
// Values: null, bool, integer (int64), string, array, object.  No floats (DESIGN A.1: all logged
// numbers are integers below 2^31).
#pragma once
#include <cstdint>
#include <cstdio>
#include <cstdlib>
#include <map>
#include <memory>
#include <stdexcept>
#include <string>
#include <vector>

namespace vj {

struct Value;
using Array = std::vector<Value>;
using Object = std::map<std::string, Value>;

struct Value {
   enum Kind { Null, Bool, Int, Str, Arr, Obj } kind = Null;
   bool b = false;
   int64_t i = 0;
   std::string s;
   std::shared_ptr<Array> a;
   std::shared_ptr<Object> o;

   bool has(const std::string& k) const { return kind == Obj && o->count(k) != 0; }
   const Value& operator[](const std::string& k) const {
      static const Value nullv;
      if (kind != Obj) return nullv;
      auto it = o->find(k);
      return it == o->end() ? nullv : it->second;
   }
   const Value& operator[](size_t idx) const { return a->at(idx); }
   size_t size() const { return kind == Arr ? a->size() : kind == Obj ? o->size() : 0; }
   int64_t num(int64_t def = 0) const { return kind == Int ? i : kind == Bool ? (b ? 1 : 0) : def; }
   bool boolean(bool def = false) const { return kind == Bool ? b : kind == Int ? i != 0 : def; }
   const std::string& str() const { return s; }
   // array of integers -> byte string
   std::string bytes() const {
      std::string r;
      if (kind == Arr) for (auto& v : *a) r.push_back(static_cast<char>(v.num()));
      return r;
   }
   std::vector<int64_t> ints() const {
      std::vector<int64_t> r;
      if (kind == Arr) for (auto& v : *a) r.push_back(v.num());
      return r;
   }
};

class Parser {
public:
   explicit Parser(const std::string& t) : p(t.c_str()), e(t.c_str() + t.size()) {}
   Value parse() { ws(); Value v = val(); ws(); return v; }
private:
   const char* p; const char* e;
   void ws() { while (p < e && (*p == ' ' || *p == '\t' || *p == '\n' || *p == '\r')) ++p; }
   [[noreturn]] void fail(const char* m) { throw std::runtime_error(std::string("json: ") + m); }
   Value val() {
      if (p >= e) fail("eof");
      Value v;
      switch (*p) {
      case '{': {
         v.kind = Value::Obj; v.o = std::make_shared<Object>(); ++p; ws();
         if (p < e && *p == '}') { ++p; return v; }
         for (;;) {
            ws(); if (p >= e || *p != '"') fail("key");
            std::string k = str(); ws();
            if (p >= e || *p != ':') fail("colon");
            ++p; ws();
            (*v.o)[k] = val(); ws();
            if (p < e && *p == ',') { ++p; continue; }
            if (p < e && *p == '}') { ++p; break; }
            fail("object");
         }
         return v; }
      case '[': {
         v.kind = Value::Arr; v.a = std::make_shared<Array>(); ++p; ws();
         if (p < e && *p == ']') { ++p; return v; }
         for (;;) {
            ws(); v.a->push_back(val()); ws();
            if (p < e && *p == ',') { ++p; continue; }
            if (p < e && *p == ']') { ++p; break; }
            fail("array");
         }
         return v; }
      case '"': v.kind = Value::Str; v.s = str(); return v;
      case 't': p += 4; v.kind = Value::Bool; v.b = true; return v;
      case 'f': p += 5; v.kind = Value::Bool; v.b = false; return v;
      case 'n': p += 4; return v;
      default: {
         char* end = nullptr;
         v.kind = Value::Int; v.i = strtoll(p, &end, 10);
         if (end == p) fail("number");
         p = end; return v; }
      }
   }
   std::string str() {
      std::string r; ++p;
      while (p < e && *p != '"') {
         if (*p == '\\' && p + 1 < e) {
            ++p;
            switch (*p) {
            case 'n': r.push_back('\n'); break;
            case 't': r.push_back('\t'); break;
            case 'r': r.push_back('\r'); break;
            case 'u': { unsigned c = strtoul(std::string(p + 1, 4).c_str(), nullptr, 16); r.push_back(static_cast<char>(c)); p += 4; break; }
            default: r.push_back(*p);
            }
            ++p;
         } else r.push_back(*p++);
      }
      if (p < e) ++p;
      return r;
   }
};

inline Value parse(const std::string& t) { return Parser(t).parse(); }

// ---- writer: builds one JSON object per line -------------------------------------------------
class Line {
public:
   Line() { buf = "{"; }
   Line& str(const char* k, const std::string& v) {
      key(k); buf += '"';
      for (unsigned char c : v) {
         if (c == '"' || c == '\\') { buf += '\\'; buf += static_cast<char>(c); }
         else if (c < 0x20 || c > 0x7e) { char t[8]; snprintf(t, sizeof t, "\\u%04x", c); buf += t; }
         else buf += static_cast<char>(c);
      }
      buf += '"'; return *this;
   }
   Line& num(const char* k, long long v) { key(k); buf += std::to_string(v); return *this; }
   Line& boolean(const char* k, bool v) { key(k); buf += v ? "true" : "false"; return *this; }
   // byte string as array of integer codes
   Line& bytes(const char* k, const std::string& v) { return bytes(k, v.data(), v.size()); }
   Line& bytes(const char* k, const char* d, size_t n) {
      key(k); buf += '[';
      for (size_t i = 0; i < n; ++i) { if (i) buf += ','; buf += std::to_string(static_cast<unsigned char>(d[i])); }
      buf += ']'; return *this;
   }
   template <typename It> Line& ints(const char* k, It b, It e) {
      key(k); buf += '['; bool f = true;
      for (; b != e; ++b) { if (!f) buf += ','; f = false; buf += std::to_string(static_cast<long long>(*b)); }
      buf += ']'; return *this;
   }
   template <typename C> Line& ints(const char* k, const C& c) { return ints(k, c.begin(), c.end()); }
   Line& bools(const char* k, const std::vector<bool>& c) {
      key(k); buf += '['; bool f = true;
      for (bool b : c) { if (!f) buf += ','; f = false; buf += b ? "true" : "false"; }
      buf += ']'; return *this;
   }
   Line& raw(const char* k, const std::string& json) { key(k); buf += json; return *this; }
   std::string done() const { return buf + "}"; }
   // per-thread sink: when set, events are appended to it instead of being written to stdout
   static std::string*& sink() { static thread_local std::string* s = nullptr; return s; }
   void emit(FILE* f = stdout) const {
      std::string s = done(); s += '\n';
      if (sink() != nullptr) { sink()->append(s); return; }
      fwrite(s.data(), 1, s.size(), f);
   }
private:
   std::string buf; bool first = true;
   void key(const char* k) { if (!first) buf += ','; first = false; buf += '"'; buf += k; buf += "\":"; }
};

// read all lines of a stream
inline bool getline(FILE* f, std::string& out) {
   out.clear(); int c;
   while ((c = fgetc(f)) != EOF) { if (c == '\n') return true; out.push_back(static_cast<char>(c)); }
   return !out.empty();
}

}  // namespace vj
