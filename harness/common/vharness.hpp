// Common driver support: deterministic PRNG, crash sensors (sanitizer death, signals, terminate),
// script reading.  A driver's trace always ends with {"e":"End"} when the process survived; any other
// ending is turned into a rejected trace by the runner (DESIGN 1.4: the specifications have no action
// for MemFault/Race/Terminate events).
#pragma once
#include <csignal>
#include <cstdint>
#include <cstdio>
#include <cstdlib>
#include <cstring>
#include <exception>
#include <string>
#include <unistd.h>
#include "vjson.hpp"

#if defined(__has_feature)
#if __has_feature(address_sanitizer) || __has_feature(thread_sanitizer) || __has_feature(memory_sanitizer)
#define VH_SANITIZER 1
extern "C" void __sanitizer_set_death_callback(void (*)(void));
#endif
#endif

namespace vh {

struct Rng {
   uint64_t s;
   explicit Rng(uint64_t seed) : s(seed * 0x9E3779B97F4A7C15ull + 0x1234567ull) {}
   uint64_t next() {
      uint64_t z = (s += 0x9E3779B97F4A7C15ull);
      z = (z ^ (z >> 30)) * 0xBF58476D1CE4E5B9ull;
      z = (z ^ (z >> 27)) * 0x94D049BB133111EBull;
      return z ^ (z >> 31);
   }
   // uniform in [0, n)
   uint64_t below(uint64_t n) { return n == 0 ? 0 : next() % n; }
   // uniform in [lo, hi]
   int64_t range(int64_t lo, int64_t hi) { return lo + static_cast<int64_t>(below(static_cast<uint64_t>(hi - lo + 1))); }
   bool chance(unsigned num, unsigned den) { return below(den) < num; }
   template <typename C> const typename C::value_type& pick(const C& c) { return c[below(c.size())]; }
};

inline const char*& crash_kind() { static const char* k = nullptr; return k; }

inline void write_crash(const char* kind) {
   fflush(stdout);
   char buf[128];
   int n = snprintf(buf, sizeof buf, "{\"e\":\"Crash\",\"kind\":\"%s\"}\n", kind);
   if (n > 0) { ssize_t r = write(1, buf, static_cast<size_t>(n)); (void)r; }
}

inline void on_death() { write_crash("sanitizer"); }
inline void on_signal(int sig) {
   write_crash(sig == SIGSEGV ? "SIGSEGV" : sig == SIGABRT ? "SIGABRT" : sig == SIGFPE ? "SIGFPE" : sig == SIGBUS ? "SIGBUS" : "signal");
   _exit(70);
}
inline void on_terminate() {
   write_crash("terminate");
   _exit(71);
}

inline void init() {
   static char obuf[1 << 16];
   setvbuf(stdout, obuf, _IOFBF, sizeof obuf);
#ifdef VH_SANITIZER
   __sanitizer_set_death_callback(on_death);
#endif
   signal(SIGSEGV, on_signal);
   signal(SIGABRT, on_signal);
   signal(SIGFPE, on_signal);
   signal(SIGBUS, on_signal);
   std::set_terminate(on_terminate);
}

inline void end() {
   fputs("{\"e\":\"End\"}\n", stdout);
   fflush(stdout);
}

// command line helpers: --key value
inline const char* arg(int argc, char** argv, const char* key, const char* def = nullptr) {
   for (int i = 1; i + 1 < argc; ++i)
      if (strcmp(argv[i], key) == 0) return argv[i + 1];
   return def;
}
inline bool flag(int argc, char** argv, const char* key) {
   for (int i = 1; i < argc; ++i)
      if (strcmp(argv[i], key) == 0) return true;
   return false;
}
inline long long argnum(int argc, char** argv, const char* key, long long def) {
   const char* v = arg(argc, argv, key);
   return v ? atoll(v) : def;
}

}  // namespace vh
