#!/usr/bin/env python3
"""Common machinery for the Celma TLA+ conformance checks.

Activities (DESIGN.md section 1):
  M  model checking a bounded instance with TLC            -> tlc_model()
  R  replay of TLC-generated transitions in the real code  -> cover() + driver + validate()
  T  validation of traces recorded from the real code      -> validate()
Everything here is deterministic given VERIF_SEED.
"""
import hashlib, json, os, re, shutil, subprocess, sys, time, glob, collections, concurrent.futures

ROOT = os.path.dirname(os.path.dirname(os.path.abspath(__file__)))
REPO = os.environ.get("CELMA_REPO", "/repo")
OUT = os.environ.get("VERIF_OUT", os.path.join(ROOT, "out"))
NCPU = int(os.environ.get("VERIF_NCPU", min(16, os.cpu_count() or 4)))
SEED = int(os.environ.get("VERIF_SEED", "20260101"))
GUARD = "CELMA_VERIF"


class MachineryError(Exception):
    """Something in the verification machinery (not the code under test) failed."""


def log(*a):
    print(*a, file=sys.stderr, flush=True)


def mkdir(p):
    os.makedirs(p, exist_ok=True)
    return p


def workdir(prop, tier):
    d = os.path.join(OUT, "work", "%s_%s" % (prop, tier))
    shutil.rmtree(d, ignore_errors=True)
    return mkdir(d)


# ----------------------------------------------------------------------------------------------
# Building Celma + drivers (DESIGN 2.3)
# ----------------------------------------------------------------------------------------------
FLAVOURS = {
    "plain": [],
    "asan": ["-fsanitize=address,undefined", "-fno-sanitize-recover=undefined", "-fno-omit-frame-pointer"],
    "tsan": ["-fsanitize=thread", "-fno-omit-frame-pointer"],
}
# Coverage mode (bin/covreport, development aid, never used by a registered check): VERIF_COV=<dir> replaces the sanitizers of
# every flavour by clang source-based coverage; the drivers write their profiles into <dir>.
COVDIR = os.environ.get("VERIF_COV", "")
if COVDIR:
    FLAVOURS = {k: ["-fprofile-instr-generate", "-fcoverage-mapping"] for k in FLAVOURS}
BASEFLAGS = ["-std=c++17", "-O1", "-g", "-w", "-D" + GUARD, "-I" + os.path.join(REPO, "src"),
             "-I" + os.path.join(ROOT, "harness")]
LIB_EXCLUDE = ("print_version_info.cpp",)


def lib_sources(subdirs=None):
    """All library .cpp files (optionally restricted to subdirectories of src/library)."""
    base = os.path.join(REPO, "src", "library")
    res = []
    for dp, dn, fn in os.walk(base):
        rel = os.path.relpath(dp, base)
        if "/test" in "/" + rel or "test_output" in rel:
            continue
        if subdirs is not None and not any(rel == s or rel.startswith(s + "/") for s in subdirs):
            continue
        for f in fn:
            if f.endswith(".cpp") and f not in LIB_EXCLUDE:
                res.append(os.path.join(dp, f))
    return sorted(res)


def _compile_one(args):
    src, flavour, extra = args
    flags = BASEFLAGS + FLAVOURS[flavour] + list(extra)
    pre = subprocess.run(["clang++"] + flags + ["-E", src], capture_output=True)
    if pre.returncode != 0:
        return (src, None, pre.stderr.decode(errors="replace")[-3000:])
    h = hashlib.sha256(pre.stdout + " ".join(flags).encode()).hexdigest()[:24]
    odir = mkdir(os.path.join(OUT, "build", flavour))
    obj = os.path.join(odir, h + ".o")
    if not os.path.exists(obj):
        tmp = obj + ".%d.tmp" % os.getpid()
        r = subprocess.run(["clang++"] + flags + ["-c", src, "-o", tmp], capture_output=True)
        if r.returncode != 0:
            return (src, None, r.stderr.decode(errors="replace")[-3000:])
        os.replace(tmp, obj)
    return (src, obj, "")


def build_driver(name, driver_src, flavour="asan", lib_subdirs=(), extra=(), libs=()):
    """Compile the driver and the library sources it needs from /repo's working tree.
    Returns the path of the binary.  A compile failure of /repo code is a MachineryError
    (a change that does not compile is out of scope for the property checks)."""
    t0 = time.time()
    srcs = [driver_src] + (lib_sources(list(lib_subdirs)) if lib_subdirs else [])
    with concurrent.futures.ThreadPoolExecutor(NCPU) as ex:
        res = list(ex.map(_compile_one, [(s, flavour, tuple(extra)) for s in srcs]))
    bad = [r for r in res if r[1] is None]
    if bad:
        raise MachineryError("compile failed: %s\n%s" % (bad[0][0], bad[0][2]))
    objs = [r[1] for r in res]
    h = hashlib.sha256((" ".join(sorted(objs)) + flavour + " ".join(libs)).encode()).hexdigest()[:16]
    bdir = mkdir(os.path.join(OUT, "bin"))
    exe = os.path.join(bdir, "%s_%s_%s" % (name, flavour, h))
    if not os.path.exists(exe):
        tmp = exe + ".%d.tmp" % os.getpid()
        r = subprocess.run(["clang++"] + FLAVOURS[flavour] + objs + ["-o", tmp, "-lpthread"] + list(libs),
                           capture_output=True)
        if r.returncode != 0:
            raise MachineryError("link failed: " + r.stderr.decode(errors="replace")[-3000:])
        os.replace(tmp, exe)
    log("[build] %s (%s) %d TU in %.1fs" % (name, flavour, len(srcs), time.time() - t0))
    return exe


SAN_ENV = {
    "ASAN_OPTIONS": "detect_leaks=0:abort_on_error=0:halt_on_error=1:detect_stack_use_after_return=1:"
                    "alloc_dealloc_mismatch=1:new_delete_type_mismatch=1:allocator_may_return_null=1",
    "UBSAN_OPTIONS": "halt_on_error=1:print_stacktrace=1",
    "TSAN_OPTIONS": "halt_on_error=0:report_signal_unsafe=0:second_deadlock_stack=1",
}


def _limits(max_out_mb):
    def f():
        import resource
        resource.setrlimit(resource.RLIMIT_FSIZE, (max_out_mb << 20, max_out_mb << 20))
        resource.setrlimit(resource.RLIMIT_CORE, (0, 0))
    return f


def run_driver(exe, args, stdin_path=None, stdout_path=None, timeout=300, env=None, max_out_mb=400):
    """Run a driver.  Returns (exit code, stderr tail).  Timeout -> exit code 124.
    Output is capped (RLIMIT_FSIZE): a runaway loop in the code under test ends the driver."""
    e = dict(os.environ)
    e.update(SAN_ENV)
    e["TZ"] = "UTC"
    if env:
        e.update(env)
    if COVDIR:
        e["LLVM_PROFILE_FILE"] = os.path.join(mkdir(COVDIR), "%p-%m.profraw")
    fin = open(stdin_path, "rb") if stdin_path else subprocess.DEVNULL
    fout = open(stdout_path, "wb") if stdout_path else subprocess.DEVNULL
    try:
        p = subprocess.run([exe] + [str(a) for a in args], stdin=fin, stdout=fout, stderr=subprocess.PIPE,
                           timeout=timeout, env=e, preexec_fn=_limits(max_out_mb))
        return p.returncode, p.stderr.decode(errors="replace")[-4000:]
    except subprocess.TimeoutExpired as ex:
        return 124, (ex.stderr or b"").decode(errors="replace")[-4000:]
    finally:
        if stdin_path:
            fin.close()
        if stdout_path:
            fout.close()


# ----------------------------------------------------------------------------------------------
# TLC
# ----------------------------------------------------------------------------------------------
TLC_JAR = "/opt/veriftools/tla/tla2tools.jar:/opt/veriftools/tla/CommunityModules-deps.jar"


import itertools
_md_counter = itertools.count()


class TLCResult:
    def __init__(self):
        self.exit = None
        self.generated = 0
        self.distinct = 0
        self.depth = 0
        self.last_state = 0        # highest state number of a printed error trace
        self.out = ""
        self.violation = None      # text of the violated invariant/property, if any
        self.error = None          # machinery-level error text
        self.wall = 0.0
        self.coverage = {}         # action name -> (taken, generated)  when -coverage was on


def _java(xmx, serial=False):
    gc = ["-XX:+UseSerialGC", "-XX:CICompilerCount=2"] if serial else ["-XX:+UseParallelGC"]
    return ["java"] + gc + ["-Xss256m", "-Xmx" + xmx, "-cp", TLC_JAR]


def run_tlc(spec_dir, module, cfg, workers=NCPU, env=None, timeout=1500, xmx="8g", extra=(), stdout_path=None,
            metadir=None, dfs=False):
    """Run TLC on spec_dir/module.tla with spec_dir/cfg.  stdout is written to stdout_path."""
    t0 = time.time()
    md = metadir or os.path.join(OUT, "tlcmeta", "%s_%d_%d_%d" % (module, os.getpid(), int(t0 * 1000) % 10**9, next(_md_counter)))
    shutil.rmtree(md, ignore_errors=True)
    mkdir(md)
    e = dict(os.environ)
    if env:
        e.update({k: str(v) for k, v in env.items()})
    cmd = ["timeout", str(timeout)] + _java(xmx, serial=(workers == 1))
    if dfs:
        cmd += ["-Dtlc2.tool.queue.IStateQueue=StateDeque"]
    cmd += ["tlc2.TLC", "-workers", str(workers), "-metadir", md, "-config", cfg, "-noGenerateSpecTE"] + list(extra) + [module + ".tla"]
    stdout_path = stdout_path or os.path.join(md, "tlc.out")
    with open(stdout_path, "wb") as fo:
        p = subprocess.run(cmd, cwd=spec_dir, stdout=fo, stderr=subprocess.STDOUT, env=e)
    r = TLCResult()
    r.exit = p.returncode
    r.wall = time.time() - t0
    r.stdout_path = stdout_path
    tail = []
    first_error = None
    with open(stdout_path, "r", errors="replace") as f:
        for line in f:
            if line.startswith('"EDGE '):
                continue
            if first_error is None and line.startswith("Error: "):
                first_error = line
            tail.append(line)
            if len(tail) > 400:
                tail = tail[-300:]
            m = re.match(r"(\d+) states generated, (\d+) distinct states found", line)
            if m:
                r.generated, r.distinct = int(m.group(1)), int(m.group(2))
            m = re.match(r"The depth of the complete state graph search is (\d+)", line)
            if m:
                r.depth = int(m.group(1))
            m = re.match(r"State (\d+): ", line)
            if m:
                r.last_state = max(r.last_state, int(m.group(1)))
    r.out = (first_error or "") + "".join(tail)
    shutil.rmtree(md, ignore_errors=True) if stdout_path and not stdout_path.startswith(md) else None
    if r.exit == 124:
        r.error = "TLC timeout after %ds" % timeout
    elif r.exit == 0:
        pass
    elif r.exit in (10, 11, 12, 13):
        m = re.search(r"Error: (Invariant .*? is violated|Action property .*? is violated|Temporal properties were violated|"
                      r"Assumption .*? is false|Deadlock reached|Postcondition .*|The postcondition .*)", r.out)
        r.violation = m.group(1) if m else "TLC reported a violation (exit %d)" % r.exit
        if "evaluating" in r.out and "Error: TLC threw" in r.out:
            r.error = "TLC evaluation error:\n" + r.out[-1500:]
    else:
        first = re.search(r"^Error: .*(?:\n(?!Error|@!@).*){0,6}", r.out, re.M)
        r.error = "TLC failed (exit %d):\n%s\n...\n%s" % (r.exit, first.group(0)[:1500] if first else "", r.out[-2500:])
    return r


def sany(spec_dir, module):
    p = subprocess.run(["java", "-cp", TLC_JAR, "tla2sany.SANY", module + ".tla"], cwd=spec_dir, capture_output=True)
    out = p.stdout.decode(errors="replace")
    ok = p.returncode == 0 and "Semantic errors" not in out and "Parse Error" not in out and "*** Errors" not in out
    return ok, out


def tlc_model(spec_dir, module, cfg, want_edges=True, workers=NCPU, timeout=1500, xmx="12g", env=None, coverage=True):
    """Activity M.  Returns (TLCResult, edges list | None).
    Each edge is (pre_key, action_json_str, post_key)."""
    wd = mkdir(os.path.join(OUT, "tlcout"))
    so = os.path.join(wd, "%s_%s.out" % (module, os.path.basename(cfg)))
    extra = ["-coverage", "1"] if coverage else []
    r = run_tlc(spec_dir, module, cfg, workers=workers, timeout=timeout, xmx=xmx, stdout_path=so, env=env, extra=extra)
    if r.error:
        raise MachineryError("model checking of %s/%s: %s" % (module, cfg, r.error))
    if coverage:
        r.coverage = parse_coverage(so)
    edges = None
    if want_edges:
        edges = []
        with open(so, "r", errors="replace") as f:
            for line in f:
                if line.startswith('"EDGE '):
                    try:
                        s = json.loads(line)
                        d = json.loads(s[5:])
                    except Exception as ex:
                        raise MachineryError("unparsable EDGE line: %r (%s)" % (line[:200], ex))
                    edges.append((json.dumps(d["pre"], sort_keys=True), json.dumps(d["a"], sort_keys=True),
                                  json.dumps(d["post"], sort_keys=True), bool(d.get("i", False))))
    return r, edges


def parse_coverage(path):
    """Per-action (distinct, generated) from the last coverage block of a -coverage run."""
    cov = {}
    with open(path, "r", errors="replace") as f:
        for line in f:
            m = re.match(r"<(\w+) line \d+, col \d+ to line \d+, col \d+ of module (\w+)>: (\d+):(\d+)", line)
            if m:
                cov[m.group(1)] = (int(m.group(3)), int(m.group(4)))
    return cov


def require_actions_taken(cov, names, module):
    """Vacuity guard: every named action must have generated at least one state."""
    missing = [n for n in names if n in cov and cov[n][1] == 0]
    absent = [n for n in names if n not in cov]
    if missing:
        raise MachineryError("vacuous model %s: actions never taken: %s" % (module, missing))
    return absent


# ----------------------------------------------------------------------------------------------
# Transition cover (Activity R, first half)
# ----------------------------------------------------------------------------------------------
def cover(edges, init_keys=None, maxlen=40):
    """Sequences of actions (JSON strings) from an initial state covering every edge.
    Returns list of lists of action-json strings.  Deterministic."""
    succ = collections.OrderedDict()
    indeg = set()
    if init_keys is None:
        init_keys = sorted(set(e[0] for e in edges if len(e) > 3 and e[3]))
    edges = sorted(set((e[0], e[1], e[2]) for e in edges))
    for pre, a, post in edges:
        succ.setdefault(pre, [])
        succ.setdefault(post, [])
    seen = set()
    for pre, a, post in edges:
        k = (pre, a, post)
        if k in seen:
            continue
        seen.add(k)
        succ[pre].append((a, post))
        indeg.add(post)
    if not init_keys:
        raise MachineryError("cover(): no initial state marked in the EDGE lines (field i)")
    # BFS tree
    parent = {}
    order = []
    dq = collections.deque()
    for i in init_keys:
        parent[i] = None
        dq.append(i)
    while dq:
        u = dq.popleft()
        order.append(u)
        for a, v in succ[u]:
            if v not in parent:
                parent[v] = (u, a)
                dq.append(v)

    def path(u):
        p = []
        while parent[u] is not None:
            u, a = parent[u]
            p.append(a)
        p.reverse()
        return p

    covered = set()
    nxt = {u: 0 for u in succ}
    seqs = []
    unreachable = [u for u in succ if u not in parent]
    if unreachable:
        raise MachineryError("cover(): %d states unreachable from the marked initial states" % len(unreachable))
    for u in order:
        while nxt[u] < len(succ[u]):
            # start a new sequence at u and extend greedily through uncovered edges
            seq = path(u)
            cur = u
            while len(seq) < maxlen or cur == u:
                # skip covered
                while nxt[cur] < len(succ[cur]) and (cur, nxt[cur]) in covered:
                    nxt[cur] += 1
                if nxt[cur] >= len(succ[cur]):
                    break
                i = nxt[cur]
                covered.add((cur, i))
                nxt[cur] += 1
                a, v = succ[cur][i]
                seq.append(a)
                cur = v
                if len(seq) >= maxlen:
                    break
            seqs.append(seq)
    return seqs, len(seen), len(succ), len(unreachable)


def write_script(seqs, path):
    """One JSON action per line; {"n":"Reset"} starts each sequence."""
    with open(path, "w") as f:
        for s in seqs:
            f.write('{"n":"Reset"}\n')
            for a in s:
                f.write(a + "\n")
    return sum(len(s) + 1 for s in seqs)


# ----------------------------------------------------------------------------------------------
# Trace validation (Activities R second half, T)
# ----------------------------------------------------------------------------------------------
def split_executions(lines):
    """Split an ndjson event list into executions; every execution starts with a Reset event."""
    ex = []
    for ln in lines:
        if ln.startswith('{"e":"Reset"') or not ex:
            ex.append([])
        ex[-1].append(ln)
    return ex


def _validate_file(spec_dir, module, cfg, path, env, timeout, xmx="4g"):
    e = {"TRACE": path}
    if env:
        e.update(env)
    r = run_tlc(spec_dir, module, cfg, workers=1, env=e, timeout=timeout, xmx=xmx)
    return r


class Rejection:
    def __init__(self, shard, execution, index_in_execution, event, reason, replay_path=None):
        self.shard = shard
        self.execution = execution
        self.index = index_in_execution
        self.event = event
        self.reason = reason
        self.replay = replay_path

    def __repr__(self):
        return "Rejection(%s, event #%d: %s)" % (self.reason, self.index, (self.event or "")[:300])


def validate_trace(spec_dir, module, cfg, trace_path, workdir_, shards=NCPU, env=None, timeout=900, max_rejections=4,
                   tag="t", known=None, stateless=False, max_known=150):
    """Validate a recorded ndjson trace (many executions separated by Reset events) against a trace
    specification.  Returns (n_executions, n_events, [Rejection]).  A rejection is only reported if a
    second TLC run repeats it (DESIGN 1.5)."""
    with open(trace_path, "r", errors="replace") as f:
        lines = [ln.rstrip("\n") for ln in f if ln.strip()]
    execs = split_executions(lines)
    n_exec, n_events = len(execs), len(lines)
    if not execs:
        return 0, 0, []
    shards = max(1, min(shards, (n_events + 1999) // 2000, len(execs)))
    # contiguous partition balanced by events
    parts = [[] for _ in range(shards)]
    tgt = n_events / shards
    acc, pi = 0, 0
    for exn in execs:
        if acc >= tgt * (pi + 1) and pi < shards - 1:
            pi += 1
        parts[pi].append(exn)
        acc += len(exn)
    parts = [p for p in parts if p]

    def work(idx):
        rej = []
        knownrej = []
        nknown = [0]
        todo = parts[idx]
        rnd = 0
        while todo and len(rej) < max_rejections:
            p = os.path.join(workdir_, "%s_shard%d_%d.ndjson" % (tag, idx, rnd))
            with open(p, "w") as f:
                for exn in todo:
                    f.write("\n".join(exn) + "\n")
            total = sum(len(x) for x in todo)
            r = _validate_file(spec_dir, module, cfg, p, env, timeout)
            if r.error:
                raise MachineryError("trace validation %s shard %d: %s" % (module, idx, r.error))
            if r.exit == 0:
                break
            # rejection.  The trace specification may branch (unlogged choices), so the position is taken from
            # the depth of the search (levels = initial state + one per matched event), not from the state count.
            is_inv = r.violation and not re.search(r"ostcondition", r.violation)
            if is_inv:
                # an invariant failed in the last state of the printed error trace: State k+1 follows event k
                bad = (r.last_state - 2) if r.last_state >= 2 else max(0, r.generated - 2)
            else:
                matched = (r.depth - 1) if r.depth >= 1 else max(0, r.generated - 1)
                bad = matched
            bad = max(0, min(bad, total - 1))
            # locate execution
            k, cnt = 0, 0
            while k < len(todo) and cnt + len(todo[k]) <= bad:
                cnt += len(todo[k])
                k += 1
            k = min(k, len(todo) - 1)
            exn = todo[k]
            off = bad - cnt
            # confirm on the single execution (second run, DESIGN 1.5)
            rp = os.path.join(workdir_, "%s_reject_%d_%d.ndjson" % (tag, idx, rnd))
            with open(rp, "w") as f:
                f.write("\n".join(exn[: off + 1]) + "\n")
            r2 = _validate_file(spec_dir, module, cfg, rp, env, timeout)
            if r2.error:
                raise MachineryError("trace validation (confirm) %s: %s" % (module, r2.error))
            if r2.exit != 0:
                rj = Rejection(idx, exn, off, exn[off], r.violation or "trace not accepted", rp)
                rj.known = known(exn[off], exn) if known else None
                if rj.known:
                    nknown[0] += 1
                    knownrej.append(rj)
                else:
                    rej.append(rj)
            else:
                raise MachineryError("rejection not repeatable on isolated execution (module %s, file %s, event %d)"
                                     % (module, p, bad))
            if stateless and off + 1 < len(exn) and (rj.known is None or nknown[0] < max_known):
                # events are independent of each other: go on behind the rejected event of the same execution
                todo = [[exn[0]] + exn[off + 1:]] + todo[k + 1:]
            else:
                todo = todo[k + 1:]
            rnd += 1
        return rej + knownrej

    rejections = []
    with concurrent.futures.ThreadPoolExecutor(len(parts)) as ex:
        for rj in ex.map(work, range(len(parts))):
            rejections.extend(rj)
    return n_exec, n_events, rejections


# ----------------------------------------------------------------------------------------------
# Known findings (DESIGN 1.6)
# ----------------------------------------------------------------------------------------------
def load_findings(prop):
    res = []
    for p in [os.path.join(ROOT, "known_findings.jsonl")]:
        if not os.path.exists(p):
            continue
        with open(p) as f:
            for ln in f:
                ln = ln.strip()
                if not ln or ln.startswith("#"):
                    continue
                d = json.loads(ln)
                if d.get("property") == prop and d.get("status") == "known":
                    res.append(d)
    return res


def match_finding(findings, event_json, execution=None):
    """A finding has 'match': a python expression over the rejected event `ev` (dict), the configuration `cfg`
    of its execution (from the Reset line, if it has one) and the predicates of tools/finding_helpers.py."""
    import finding_helpers
    try:
        ev = json.loads(event_json)
    except Exception:
        return None
    cfg = None
    try:
        if execution:
            cfg = json.loads(execution[0]).get("cfg")
    except Exception:
        cfg = None
    env = {"ev": ev, "cfg": cfg, "len": len, "any": any, "all": all}
    env.update({k: v for k, v in vars(finding_helpers).items() if callable(v) and not k.startswith("_")})
    for fd in findings:
        try:
            if eval(fd["match"], {"__builtins__": {}}, env):
                return fd
        except Exception:
            continue
    return None


# ----------------------------------------------------------------------------------------------
# Evidence + result reporting
# ----------------------------------------------------------------------------------------------
class Check:
    def __init__(self, prop, tier):
        self.prop = prop
        self.tier = tier
        self.t0 = time.time()
        self.wd = workdir(prop, tier)
        self.states = 0
        self.transitions = 0
        self.traces = 0
        self.events = 0
        self.evaluations = 0
        self.samples = []
        self.models = []
        self.violations = []     # (description, replay path)
        self.known = []
        self.notes = []
        self.assumptions = []
        self.exhaustive = False
        self.distinct = set()
        self.findings = load_findings(prop)
        self.rule = ""

    # -- M --
    def add_model(self, name, r, edges=None, note=""):
        self.states += r.distinct
        self.transitions += (len(edges) if edges else r.generated)
        self.models.append({"model": name, "distinct_states": r.distinct, "states_generated": r.generated,
                            "edges_printed": len(edges) if edges is not None else None, "depth": r.depth,
                            "wall_s": round(r.wall, 1), "note": note})
        if r.violation:
            rp = os.path.join(self.wd, "tlc_violation_%s.txt" % name)
            with open(rp, "w") as f:
                f.write(r.out)
            self.violations.append(("specification %s: %s" % (name, r.violation), rp))

    def model(self, spec_dir, module, cfg, want_edges=True, must_take=(), **kw):
        r, edges = tlc_model(spec_dir, module, cfg, want_edges=want_edges, **kw)
        if must_take and not r.violation:
            require_actions_taken(r.coverage, must_take, module)
        self.add_model("%s/%s" % (module, cfg), r, edges)
        log("[M] %s %s: %d distinct, %d generated, %s edges, %.1fs%s" % (
            module, cfg, r.distinct, r.generated, len(edges) if edges is not None else "-", r.wall,
            " VIOLATION " + r.violation if r.violation else ""))
        return r, edges

    # -- R/T --
    def validate(self, spec_dir, module, cfg, trace_path, tag, env=None, shards=NCPU, timeout=900, stateless=False):
        t0 = time.time()
        n_exec, n_ev, rej = validate_trace(spec_dir, module, cfg, trace_path, self.wd, shards=shards, env=env,
                                           timeout=timeout, tag=tag, stateless=stateless,
                                           known=lambda e, x: match_finding(self.findings, e, x))
        self.traces += n_exec
        self.events += n_ev
        self.evaluations += n_ev
        with open(trace_path, "r", errors="replace") as f:
            for i, ln in enumerate(f):
                if i < 200000:
                    self.distinct.add(hashlib.md5(ln.encode()).digest()[:8])
        if n_ev and len(self.samples) < 6:
            with open(trace_path, "r", errors="replace") as f:
                ls = f.readlines()
            pick = ls[1:4] if len(ls) > 4 else ls[:3]
            for ln in pick:
                try:
                    self.samples.append({"from": tag, "event": json.loads(ln)})
                except Exception:
                    self.samples.append({"from": tag, "event_raw": ln[:500]})
        for r in rej:
            fd = getattr(r, "known", None)
            if fd:
                self.known.append(fd)
            else:
                if r.replay:
                    with open(r.replay + ".meta.json", "w") as f:
                        json.dump({"spec_dir": os.path.relpath(spec_dir, ROOT), "module": module, "cfg": cfg, "env": env or {}}, f)
                self.violations.append(("%s: %s at event #%d of an execution: %s" % (tag, r.reason, r.index, r.event[:400]),
                                        r.replay))
        log("[%s] %s: %d executions, %d events validated, %d rejected, %.1fs" % (tag, module, n_exec, n_ev, len(rej),
                                                                             time.time() - t0))
        return rej

    def drive(self, exe, args, trace_path, tag, timeout=300, env=None, stdin_path=None):
        """Run a driver that records a trace.  The trace must end with the End event; anything else
        (sanitizer death, signal, terminate, timeout, non-zero exit) is an event no specification can
        explain and is reported as a violation; the complete part of the trace is still validated."""
        t0 = time.time()
        rc, err = run_driver(exe, args, stdout_path=trace_path, timeout=timeout, env=env, stdin_path=stdin_path)
        with open(trace_path, "r", errors="replace") as f:
            lines = f.readlines()
        ended = bool(lines) and lines[-1].strip() == '{"e":"End"}'
        keep = [ln for ln in lines if not ln.startswith('{"e":"End"}') and not ln.startswith('{"e":"Crash"')]
        if keep and not keep[-1].endswith("\n"):
            keep = keep[:-1]          # torn last line
        if (not ended or rc != 0) and len(keep) > 50000:
            keep = keep[:50000]       # runaway execution: validate a prefix only
        with open(trace_path, "w") as f:
            f.writelines(keep)
        if not ended or rc != 0:
            crash = [ln for ln in lines if ln.startswith('{"e":"Crash"')]
            rp = trace_path + ".crash.txt"
            with open(rp, "w") as f:
                f.write("driver: %s %s\nexit code: %s\nlast events:\n%s\ncrash event: %s\nstderr tail:\n%s\n" % (
                    exe, " ".join(str(a) for a in args), rc, "".join(keep[-5:]), "".join(crash), err))
            kind = "timeout (no termination)" if rc == 124 else (crash[0].strip() if crash else "abnormal exit %s" % rc)
            self.violations.append(("%s: execution ended with an event no specification action explains: %s" % (tag, kind), rp))
        log("[%s] driver %s: rc=%s, %d events, %.1fs" % (tag, os.path.basename(exe), rc, len(keep), time.time() - t0))
        return ended and rc == 0

    def violation(self, desc, replay):
        self.violations.append((desc, replay))

    def finish(self, level="model_checking"):
        wall = time.time() - self.t0
        # persist replay files outside the scratch work dir name space (still under out/)
        rdir = mkdir(os.path.join(OUT, "replay", self.prop))
        for old in glob.glob(os.path.join(rdir, self.tier + "_*")):
            os.remove(old)                      # replay files of earlier runs of this tier
        final_v = []
        for i, (desc, rp) in enumerate(self.violations):
            dst = os.path.join(rdir, "%s_%d_%s" % (self.tier, i, os.path.basename(rp or "none")))
            if rp and os.path.exists(rp):
                shutil.copy(rp, dst)
                if os.path.exists(rp + ".meta.json"):
                    shutil.copy(rp + ".meta.json", dst + ".meta.json")
            else:
                with open(dst, "w") as f:
                    f.write(desc + "\n")
            final_v.append((desc, dst))
        seen_k = set()
        for fd in self.known:
            if fd["id"] not in seen_k:
                seen_k.add(fd["id"])
                print("KNOWN-FINDING: property=%s %s" % (self.prop, fd["what"]))
        ev = {
            "property_id": self.prop, "tier": self.tier, "seed": SEED, "level": level,
            "coverage": {
                "states": max(self.states, 0), "transitions": max(self.transitions, 0),
                "traces_validated_against_impl": self.traces,
                "events_validated": self.events,
                "evaluations": self.evaluations,
                "distinct_nontrivial": len(self.distinct),
                "rule": self.rule or "one evaluation = one recorded implementation event (public call with arguments, result and "
                        "projected state) checked by TLC against the specification; distinct = distinct event lines "
                        "(hash of the first 200000 lines per trace file), Reset lines included once",
                "samples": self.samples[:8] or [{"note": "no trace recorded"}],
                "models": self.models,
                "exhaustive": self.exhaustive,
                "notes": self.notes,
                "known_findings_hit": sorted(seen_k),
            },
            "assumptions": self.assumptions,
            "wall_s": round(wall, 1),
            "violations": len(final_v),
        }
        # extension checks (ids X01.., behaviour outside the 20 listed properties, not registered in MANIFEST.json) keep their
        # evidence apart from the evidence of the listed properties
        evdir = mkdir(os.environ.get("VERIF_EVIDENCE_DIR", os.path.join(ROOT, "evidence", "ext") if self.prop.startswith("X") else os.path.join(ROOT, "evidence")))
        with open(os.path.join(evdir, self.prop + ".json"), "w") as f:
            json.dump(ev, f, indent=1)
        for desc, dst in final_v:
            log("  violation: " + desc[:600])
            print("VIOLATION property=%s replay=%s" % (self.prop, dst))
        if final_v:
            return 1
        print("OK property=%s tier=%s states=%d transitions=%d executions=%d events=%d wall=%.0fs" % (
            self.prop, self.tier, self.states, self.transitions, self.traces, self.events, wall))
        return 0


def main_wrapper(fn):
    try:
        sys.exit(fn())
    except MachineryError as e:
        log("MACHINERY-ERROR: %s" % e)
        sys.exit(2)


def replay(path):
    """bin/check <id> --replay <path>: re-validates a stored rejected trace prefix (the last event is the one the
    specification could not explain) or shows a stored crash report."""
    if not os.path.exists(path):
        print("no such replay file: " + path)
        return 2
    meta = path + ".meta.json"
    if not os.path.exists(meta):
        with open(path, "r", errors="replace") as f:
            sys.stdout.write(f.read()[:20000])
        return 1
    m = json.load(open(meta))
    r = run_tlc(os.path.join(ROOT, m["spec_dir"]), m["module"], m["cfg"], workers=1, env=dict(m.get("env") or {}, TRACE=path), timeout=900)
    if r.error:
        print("MACHINERY-ERROR: " + r.error)
        return 2
    with open(path) as f:
        lines = f.read().splitlines()
    if r.exit == 0:
        print("ACCEPTED: the specification %s explains all %d events of %s" % (m["module"], len(lines), path))
        return 0
    k = (r.depth - 1) if r.depth >= 1 else max(0, r.generated - 1)
    print("REJECTED by %s after %d of %d events (%s); first unexplained event:" % (m["module"], k, len(lines), r.violation))
    print(lines[min(len(lines) - 1, k)][:3000])
    return 1
