#!/usr/bin/env python3
"""Seeded generator of argument-handler configurations, abstract command lines, their legal spellings and
rule-breaking mutations (DESIGN 3.3).  It only *generates*; expected outcomes come from TLC (ArgEval.tla)."""
import json, random

SHORTS = "abcdefgijklmnopqrstuvwxyz"
LONGS = ["in", "input", "input-file", "inc", "include", "out", "output", "opt", "option", "verbose", "value", "val",
         "name", "num", "number", "level", "list", "limit", "mode", "max", "maxsize", "min", "file", "filter", "force"]
SCALAR = ["int", "str", "optint", "dbl"]
CONT = ["vecint", "vecstr", "setint", "listint", "dequeint", "arr3", "sarr3", "fwdint", "msetint", "stackint", "queueint",
        "pqint", "tup", "bits8", "vecbool", "dynbits", "mapsi"]
ARR = ("arr3", "sarr3")
NO_UNIQ = ("setint", "stackint", "queueint", "pqint", "tup", "bits8", "vecbool", "dynbits")   # setUniqueData() refused / meaningless
SORTABLE = ("vecint", "listint", "dequeint", "fwdint", "arr3", "sarr3", "vecstr")
BITS = ("bits8", "vecbool", "dynbits")                     # values are bit positions; unsetFlag() supported
WIDE = {"u64": (0, 2 ** 64 - 1), "i64": (-2 ** 63, 2 ** 63 - 1), "u32": (0, 2 ** 32 - 1), "u16": (0, 65535), "i16": (-32768, 32767)}   # other integral types
GROWBITS = ("vecbool", "dynbits")                          # std::vector<bool>, container::DynamicBitset: grow as needed
PAIRABLE = ("flag", "int", "str", "dbl", "vecint", "setint", "listint", "dequeint", "vecstr")   # first variable of DEST_PAIR (driver support)


PATTERNS = {1: "[a-z]+", 2: "[0-9]{2,4}", 3: "a.*z", 4: "[A-Z][a-z0-9_]*"}
PAT_GOOD = {1: ["a", "abc", "zzzzz"], 2: ["12", "007", "2024"], 3: ["az", "a-z", "abcXYZ_09z"], 4: ["A", "Name_1", "Zx9"]}
PAT_BAD = {1: ["", "aB", "a1", "A"], 2: ["1", "12345", "12a", ""], 3: ["a", "za", "abc", "Az"], 4: ["a", "NAME", "N-1", ""]}


def T(s):
    return [ord(c) for c in s]


def S(codes):
    return "".join(chr(c) for c in codes)


def new_arg(kind):
    init = {"flag": False, "int": 0, "dbl": 0, "level": 0, "str": [], "optint": [], "arr3": [0, 0, 0], "sarr3": [0, 0, 0], "tup": [0, [], 0],
            "bits8": [False] * 8}.get(kind, [])
    if kind == "valint":
        init = 0
    # isize: initial size of a vector<bool>/DynamicBitset destination; value arguments (kind valint, DEST_VAR_VALUE): setval = the
    # value stored, dst = index of the argument that owns the variable (0: the argument itself, fixed up by Gen.cfg), chkorig;
    # pair: second variable of a DEST_PAIR argument, set to val when the argument is used
    return {"s": 0, "l": [], "pos": False, "kind": kind, "vm": "none" if kind in ("flag", "valint") else "opt" if kind == "level" else "req", "mand": False,
            "card": {"t": "dflt", "a": 0, "b": 0}, "checks": [], "formats": [], "sep": 59 if kind == "mapsi" else 44, "clear": False, "sort": False,
            "uniq": "no", "multi": False, "req": [], "exc": [], "init": init, "depr": False, "unset": False,
            "cspell": 0, "grp": 0, "hidden": False, "dashes": False, "mix": False,
            "isize": 0, "setval": 0, "dst": 0, "chkorig": True, "pair": {"on": False, "val": 0, "init": 0}}


def is_int_kind(k):
    return k in ("int", "optint", "level", "vecint", "setint", "listint", "dequeint", "arr3", "sarr3", "fwdint", "msetint", "stackint",
                 "queueint", "pqint", "bits8", "vecbool", "dynbits")


def is_cont(k):
    return k in CONT


class Gen:
    def __init__(self, seed, rich=True):
        self.r = random.Random(seed)
        self.rich = rich
        # now and then the empty text as value of a plain string argument (given as next word "" or as "--key=")
        self.empty_str = True
        self.exotic = True           # plain string values may contain blanks, dashes, control characters, quotes, high bytes

    # ------------------------------------------------------------ configurations
    def cfg(self, nargs=None, kinds=None, allow_pos=True, constraints=True, groups=1, exclude=(), subgroups=0, cmd=None, endvalues=0.0):
        """kinds: list to draw the destination kinds from (default: all); exclude: kinds removed from that list.
        subgroups: number of sub-group arguments to add (each with a configuration of its own in a["sub"]);
        cmd: "key" / "pos": add a keyed / positional argument with value mode 'command' (docs/notes_prog_args_subgroups.md).
        endvalues: probability that the handler defines the standard argument --endvalues (flag hfEndValues).
        All three are decided after everything else, so configurations generated without them do not change."""
        r = self.r
        if exclude:
            kinds = [k for k in (kinds or ["flag", "flag", "int", "int", "str", "optint", "dbl", "dbl", "level", "level", "valint", "valint"] + CONT)
                     if k not in exclude]
        n = nargs or r.randint(1, 7)
        shorts = r.sample(SHORTS, n)
        longs = r.sample(LONGS, n)
        args = []
        for i in range(n):
            kind = r.choice(kinds) if kinds else r.choice(["flag", "flag", "int", "int", "str", "optint", "dbl", "dbl", "level", "level", "valint", "valint"] + CONT)
            # value arguments usually come in families that set different values in one variable
            if args and args[-1]["kind"] == "valint" and (not kinds or "valint" in kinds) and r.random() < 0.5:
                kind = "valint"
            a = new_arg(kind)
            ks = r.random()
            if ks < 0.2:
                a["s"] = ord(shorts[i])
            elif ks < 0.4:
                a["l"] = T(longs[i])
            else:
                a["s"] = ord(shorts[i]); a["l"] = T(longs[i])
            a["dashes"] = r.random() < 0.15
            a["grp"] = r.randrange(groups)
            if kind == "flag":
                a["init"] = r.random() < 0.2
            elif kind == "int":
                a["init"] = r.choice([0, -1, 42, 7])
            elif kind in WIDE:
                a["init"] = T(str(r.choice([0, 7, WIDE[kind][1], WIDE[kind][0]])))     # canonical decimal text
            elif kind == "dbl":
                a["init"] = r.choice([0, 10, -1, 400])           # quarters: 0, 2.5, -0.25, 100
            elif kind == "level":
                a["init"] = r.choice([0, 0, 2])
                a["mix"] = r.random() < 0.3
            elif kind == "str":
                a["init"] = T(r.choice(["", "dflt", "x"]))
            elif kind == "optint":
                a["init"] = r.choice([[], [5]])
            elif kind == "bits8":
                if r.random() < 0.3:
                    a["init"] = [False, True, False, False, False, False, False, True]
            elif kind in GROWBITS:
                a["isize"] = r.choice([0, 0, 1, 1, 2, 3, 5, 10, 16])
                a["init"] = sorted(r.sample(range(a["isize"]), r.randint(0, min(3, a["isize"])))) if r.random() < 0.5 else []
            elif kind == "mapsi":
                if r.random() < 0.3:
                    a["init"] = [[T("b"), 5], [T("p"), 1]]          # ascending keys
            elif kind == "valint":
                # value argument: own variable, or the variable of an earlier value argument
                a["dst"] = i + 1
                a["init"] = r.choice([0, 0, 4, -1])
                owners = [j + 1 for j, b in enumerate(args) if b["kind"] == "valint" and b["dst"] == j + 1]
                if owners and r.random() < 0.6:
                    a["dst"] = r.choice(owners)
                    a["init"] = args[a["dst"] - 1]["init"]
                # a value equal to the original one makes the "modified only once" check blind (outcome left open): rare
                a["setval"] = a["init"] if r.random() < 0.05 else r.choice([v for v in (1, 2, 3, 7, 42, -5) if v != a["init"]])
                a["chkorig"] = r.random() < 0.7
            elif is_cont(kind) and kind not in ARR and kind != "tup":
                if r.random() < 0.3:
                    a["init"] = [1, 2] if is_int_kind(kind) else [T("p"), T("q")]
                    if kind in ("fwdint", "stackint", "pqint"):
                        a["init"] = [2, 1]
            if kind in BITS and r.random() < 0.2:
                a["unset"] = True                                   # clear the given positions instead of setting them
            if kind in PAIRABLE and r.random() < 0.12:
                a["pair"] = {"on": True, "val": r.choice([1, 9, -2, 77]), "init": r.choice([0, 0, 5])}
            if self.rich:
                self._decorate(a)
            if kind == "valint" and a["dst"] != i + 1:
                a["mand"] = False                                   # (two mandatory checked arguments on one variable: no valid line)
            args.append(a)
        cfgd = {"abbr": r.random() < 0.8, "endvalues": False, "args": args, "hcons": []}
        if allow_pos and r.random() < 0.3:
            p = new_arg(r.choice(["str", "int", "vecstr"]))
            p["pos"] = True
            p["grp"] = r.randrange(groups)
            if p["kind"] == "str":
                p["init"] = T("none")
            args.append(p)
        if constraints and self.rich:
            self._constraints(cfgd, groups)
        for _ in range(subgroups):
            self.add_subgroup(cfgd, groups)
        if cmd:
            self.add_command(cfgd, cmd, groups)
        if endvalues and r.random() < endvalues:
            cfgd["endvalues"] = True
        return cfgd

    # ------------------------------------------------------------ sub-groups, command mode
    def add_subgroup(self, cfgd, groups=1, kinds=None):
        """appends a sub-group argument.  Its handler gets 1..4 arguments of the simple kinds; rules that are only checked at
        the end of the command line (mandatory, lower cardinality bounds, requirements, handler constraints) are kept out of
        sub-groups: the documentation does not say when a sub-group's handler checks them.  Keys inside the sub-group are drawn
        independently of the main handler's keys (the same key may exist in both)."""
        r = self.r
        args = cfgd["args"]
        sub = self.cfg(nargs=r.randint(1, 4), kinds=kinds or ["flag", "flag", "int", "int", "str", "str", "dbl", "optint", "vecint", "vecstr", "listint", "setint"],
                       allow_pos=False, constraints=False)
        for a in sub["args"]:
            a["mand"] = False
            a["dashes"] = False
            if a["card"]["t"] in ("exact", "range"):
                a["card"] = {"t": "max", "a": a["card"]["a"] if a["card"]["t"] == "exact" else a["card"]["b"], "b": 0}
        keyed = [i + 1 for i, a in enumerate(sub["args"])]
        if len(keyed) >= 2 and r.random() < 0.25:
            i, j = r.sample(keyed, 2)
            sub["args"][i - 1]["exc"] = [j]                     # excludes: enforced when the excluded argument is used
        if r.random() < 0.15:
            p = new_arg(r.choice(["str", "vecstr"])); p["pos"] = True; p["card"] = {"t": "none", "a": 0, "b": 0}
            sub["args"].append(p)
        used_s = {a["s"] for a in args}
        used_l = {tuple(a["l"]) for a in args}
        sa = new_arg("flag")
        sa["kind"] = "sub"; sa["sub"] = sub; sa["init"] = False; sa["subctor"] = r.choice([0, 0, 1])
        free_s = [c for c in SHORTS if ord(c) not in used_s]
        free_l = [l for l in LONGS + ["group", "sub", "source", "target", "extra"] if tuple(T(l)) not in used_l
                  and not any(S(list(x)).startswith(l) or l.startswith(S(list(x))) for x in used_l if x)]
        ks = r.random()
        if (ks < 0.3 or not free_l) and free_s:
            sa["s"] = ord(r.choice(free_s))
        elif ks < 0.5 or not free_s:
            sa["l"] = T(r.choice(free_l))
        else:
            sa["s"] = ord(r.choice(free_s)); sa["l"] = T(r.choice(free_l))
        sa["grp"] = r.randrange(groups)
        args.append(sa)
        return sa

    def add_command(self, cfgd, how, groups=1):
        """appends an argument with value mode 'command' (std::string destination): "key" = keyed, "pos" = positional (replaces an
        existing positional argument)."""
        r = self.r
        args = cfgd["args"]
        a = new_arg("str")
        a["vm"] = "cmd"
        a["init"] = T(r.choice(["", "none"]))
        if r.random() < 0.2:
            a["formats"].append(r.choice(["upper", "lower"]))
        if r.random() < 0.2:
            a["checks"].append({"k": "maxlen", "a": r.choice([12, 20, 40]), "b": 0, "vals": []})
        a["mand"] = r.random() < 0.2
        a["grp"] = r.randrange(groups)
        if how == "pos":
            cfgd["args"] = args = [x for x in args if not x["pos"]]
            # indices in constraints stay valid: positional arguments are always the last ones and never constrained
            a["pos"] = True
        else:
            used_s = {x["s"] for x in args}
            used_l = {tuple(x["l"]) for x in args}
            free_s = [c for c in SHORTS if ord(c) not in used_s]
            free_l = [l for l in ["exec", "run", "command", "do"] if tuple(T(l)) not in used_l
                      and not any(S(list(x)).startswith(l) or l.startswith(S(list(x))) for x in used_l if x)]
            ks = r.random()
            if (ks < 0.4 or not free_l) and free_s:
                a["s"] = ord(r.choice(free_s))
            elif ks < 0.6 or not free_s:
                a["l"] = T(r.choice(free_l))
            else:
                a["s"] = ord(r.choice(free_s)); a["l"] = T(r.choice(free_l))
        args.append(a)
        return a

    def command_text(self, cfgd):
        """the rest of a command line meant for another tool: words that may look like keys of this handler."""
        r = self.r
        pool = ["ls", "-l", "run", "x", "--force", "-v", "7", "a=b", "--", "-", "(", "!", "file.txt", "-n5", "--num=3"]
        for a in cfgd["args"]:
            if a["s"]:
                pool.append("-" + chr(a["s"]))
            if a["l"]:
                pool.append("--" + S(a["l"]))
        return [r.choice(pool) for _ in range(r.randint(1, 5))]

    def _decorate(self, a):
        r = self.r
        k = a["kind"]
        # a pre-filled optional/container destination already "has a value" for the mandatory check (undocumented): not generated
        # a bit set whose positions are cleared (unsetFlag) "has no value" after its use either: not generated as mandatory
        if k != "flag" and r.random() < 0.15 and not ((is_cont(k) or k == "optint") and a["init"] not in ([], [0, 0, 0])) and not a["unset"]:
            a["mand"] = True
        if k == "level":
            if r.random() < 0.4:
                a["checks"].append({"k": "upper", "a": a["init"] + r.choice([2, 3, 5]), "b": 0, "vals": []})
            return
        if k == "valint":
            if r.random() < 0.2:
                a["card"] = r.choice([{"t": "none", "a": 0, "b": 0}, {"t": "max", "a": 2, "b": 0}])
            return
        if is_int_kind(k) and k != "bits8" and r.random() < (0.15 if k in GROWBITS else 0.4):
            c = r.choice(["lower", "upper", "range", "values"])
            if c == "lower":
                a["checks"].append({"k": "lower", "a": r.choice([0, 1, 5, -10]), "b": 0, "vals": []})
            elif c == "upper":
                a["checks"].append({"k": "upper", "a": r.choice([10, 100, 1000]), "b": 0, "vals": []})
            elif c == "range":
                lo = r.choice([0, 1, -5, 10])
                a["checks"].append({"k": "range", "a": lo, "b": lo + r.choice([1, 2, 10, 100]), "vals": []})
            else:
                a["checks"].append({"k": "values", "a": 0, "b": 0, "vals": [T(str(v)) for v in r.sample([1, 2, 3, 5, 8, 13, 21, -4], 3)]})
            if c in ("lower",) and r.random() < 0.3:
                a["checks"].append({"k": "upper", "a": r.choice([50, 500]), "b": 0, "vals": []})
        if k in ("str", "vecstr") and r.random() < 0.4:
            c = r.choice(["minlen", "maxlen", "values", "fmt", "pattern", "pattern"])
            if c == "pattern":
                pid = r.randint(1, 4)
                a["checks"].append({"k": "pattern", "a": pid, "b": 0, "vals": [], "pat": T(PATTERNS[pid])})
                return
            if c == "minlen":
                a["checks"].append({"k": "minlen", "a": r.choice([1, 2, 3]), "b": 0, "vals": []})
            elif c == "maxlen":
                a["checks"].append({"k": "maxlen", "a": r.choice([3, 5, 8]), "b": 0, "vals": []})
            elif c == "values":
                a["checks"].append({"k": "values", "a": 0, "b": 0, "vals": [T(v) for v in r.sample(["red", "green", "blue", "on", "off", "x"], 3)]})
            else:
                a["formats"].append(r.choice(["upper", "lower"]))
                if r.random() < 0.3:
                    a["checks"].append({"k": "maxlen", "a": 6, "b": 0, "vals": []})
        if k == "tup" and r.random() < 0.35:
            # formats of single positions (addFormatPos); position 1 is the string element
            a["fmtpos"] = [{"p": p_, "f": r.choice(["upper", "lower"])} for p_ in r.sample([0, 1, 1, 2], r.randint(1, 2))]
        if is_cont(k):
            if r.random() < 0.3:
                a["sep"] = ord(r.choice(";:+/"))            # (never ',' for key-value containers: it is their pair separator)
            if r.random() < 0.25 and k not in ARR and k != "tup":
                a["clear"] = True
            if r.random() < 0.25 and k in SORTABLE:
                a["sort"] = True
            if r.random() < 0.3 and k not in NO_UNIQ:
                a["uniq"] = r.choice(["ignore", "error"])
            if r.random() < 0.4:
                a["multi"] = True
            if r.random() < 0.25 and k != "tup":
                t = r.choice(["max", "exact", "range"])
                if t == "max":
                    a["card"] = {"t": "max", "a": r.randint(1, 4), "b": 0}
                elif t == "exact":
                    a["card"] = {"t": "exact", "a": r.randint(1, 3), "b": 0}
                else:
                    lo = r.randint(1, 2)
                    a["card"] = {"t": "range", "a": lo, "b": lo + r.randint(0, 2)}
        elif k != "flag" and r.random() < 0.2:
            a["card"] = r.choice([{"t": "none", "a": 0, "b": 0}, {"t": "max", "a": 2, "b": 0}])
        elif k == "flag" and r.random() < 0.1:
            a["card"] = {"t": "none", "a": 0, "b": 0}

    def _constraints(self, cfgd, groups):
        r = self.r
        args = cfgd["args"]
        keyed = [i + 1 for i, a in enumerate(args) if not a["pos"]]
        if len(keyed) >= 2:
            for i in keyed:
                a = args[i - 1]
                same = [j for j in keyed if j != i and args[j - 1]["grp"] == a["grp"]]
                if same and r.random() < 0.15:
                    a["req"] = r.sample(same, 1)
                    a["cspell"] = r.choice([0, 0, 1, 2, 3])
                elif same and r.random() < 0.15:
                    a["exc"] = r.sample(same, min(len(same), r.choice([1, 1, 2])))
                    a["cspell"] = r.choice([0, 0, 1, 2, 3])
        if len(keyed) >= 2 and r.random() < 0.4:
            g = r.randrange(groups)
            members = [j for j in keyed if args[j - 1]["grp"] == g and not args[j - 1]["mand"] and not args[j - 1]["depr"]]
            if len(members) >= 2:
                k = r.choice(["allOf", "anyOf", "oneOf", "differ", "disjoint"])
                sel = r.sample(members, r.randint(2, min(3, len(members))))
                if k == "differ":
                    for kind in ("int", "str"):
                        sel = [j for j in members if args[j - 1]["kind"] == kind]
                        if len(sel) >= 2:
                            break
                    if len(sel) < 2:
                        return
                    sel = sel[:3]
                if k == "disjoint":
                    for kind in ("vecint", "setint", "listint", "dequeint", "vecstr"):
                        sel = [j for j in members if args[j - 1]["kind"] == kind]
                        if len(sel) >= 2:
                            break
                    if len(sel) < 2:
                        return
                    sel = sel[:2]
                cfgd["hcons"].append({"k": k, "args": sorted(sel), "cspell": r.choice([0, 0, 1, 2, 3, 3]), "grp": g})

    # ------------------------------------------------------------ values
    def good_value(self, a):
        """a text that converts and passes the checks of argument a (one element)."""
        r = self.r
        if a["kind"] == "dbl":
            ip = r.choice([0, 1, 2, 7, 10, 99, 1000, 123456])
            s = str(ip) + r.choice(["", ".0", ".25", ".5", ".50", ".75", ".00"])
            if r.random() < 0.3:
                s = "-" + s
            return s
        if a["kind"] in WIDE:
            lo, hi = WIDE[a["kind"]]
            cand = [lo, hi, hi - 1, lo + 1, 0, 1, hi // 2, hi // 2 + 1, 2 ** 15, 2 ** 16, 2 ** 31 - 1, 2 ** 31, 2 ** 32 - 1, 2 ** 32, 2 ** 63 - 1, 2 ** 63, 10 ** 18, 10 ** 19,
                    r.randint(lo, hi), r.randint(lo, hi), -(2 ** 31), -(2 ** 15)]
            v = r.choice([x for x in cand if lo <= x <= hi])
            s = str(v)
            if v >= 0 and r.random() < 0.08:
                s = "+" + s
            if r.random() < 0.08:
                s = (s[0] + "00" + s[1:]) if s[0] in "+-" else "0" + s
            return s
        if a["kind"] == "mapsi":
            return r.choice(["a", "b", "c", "k1", "key", "p", "zz"]) + "," + str(r.choice([0, 1, 7, -3, 42, 1000, r.randint(-99999, 99999)]))
        if is_int_kind(a["kind"]):
            lo, hi, vals = -1000000, 1000000, None
            if a["kind"] in GROWBITS:
                lo, hi = 0, 70                                  # positions: unsigned, small enough for a cheap projection
            for c in a["checks"]:
                if c["k"] == "lower": lo = max(lo, c["a"])
                if c["k"] == "upper": hi = min(hi, c["a"] - 1)
                if c["k"] == "range": lo = max(lo, c["a"]); hi = min(hi, c["b"] - 1)
                if c["k"] == "values": vals = [int(S(v)) for v in c["vals"]]
            if vals is not None:
                ok = [v for v in vals if lo <= v <= hi]
                return str(r.choice(ok)) if ok else None
            if lo > hi:
                return None
            v = r.choice([lo, hi, r.randint(lo, hi), r.randint(lo, min(hi, lo + 20))])
            if a["kind"] in GROWBITS and r.random() < 0.5:
                v = r.choice([x for x in (0, 1, 2, 3, 9, 10, 11, 14, 15, 16) if lo <= x <= hi] or [v])   # around the sizes 1, 2, 10, 16
            s = str(v)
            if v >= 0 and r.random() < 0.05:
                s = "+" + s
            if r.random() < 0.05:
                s = (s[0] + "0" + s[1:]) if s[0] in "+-" else "0" + s
            return s
        if (self.empty_str and a["kind"] == "str" and a.get("vm") == "req" and not a.get("pos")
                and not any(c["k"] in ("minlen", "pattern", "values") for c in a["checks"]) and r.random() < 0.06):
            return ""                       # an empty text is a value like any other
        for c in a["checks"]:
            if c["k"] == "pattern":
                return r.choice(PAT_GOOD[c["a"]])
        mn, mx, vals = 0, 12, None
        for c in a["checks"]:
            if c["k"] == "minlen": mn = max(mn, c["a"])
            if c["k"] == "maxlen": mx = min(mx, c["a"])
            if c["k"] == "values": vals = [S(v) for v in c["vals"]]
        if vals is not None:
            return r.choice(vals)
        if mn > mx:
            return None
        n = r.randint(max(mn, 1), max(mn, min(mx, 8), 1))
        alphabet = "abcXYZ019_." if not is_cont(a["kind"]) else "abcXYZ019_."
        s = "".join(r.choice(alphabet) for _ in range(n))
        if s[0] in "-":
            s = "a" + s[1:]
        if n >= 2 and a["kind"] == "str" and "l" in a and self.exotic and r.random() < 0.15:     # ("l" in a: a defined argument, not an element of a tuple)
            # characters that mean something elsewhere on a command line are ordinary characters inside a value word: blank, tab,
            # dash, the control characters ! ( ), list separators, quotes, backslash, bytes above 127 (never as first character)
            s = s[0] + "".join(r.choice(" \t-!(),;:+/|'\"\\#@\xe4\xff") if r.random() < 0.5 else ch for ch in s[1:])
            if r.random() < 0.3:
                s = s[:-1] + r.choice(" \t ")          # a value that ends with a blank / tab (the last thing on a file line when it is the last word)
        if n >= 2 and r.random() < 0.12:
            # an '=' inside the value ("--key=a=b": the key ends at the FIRST '=')
            k = r.randint(1, n - 1)
            s = s[:k] + "=" + s[k + 1:]
        if a["kind"] == "str" and "l" in a and self.exotic and r.random() < 0.06:
            # ... and as first character of the value: "-f=x" is the value "=x" glued to the short key, "--file==x" the value "=x"
            s = "=" + s
        return s

    def bad_value(self, a):
        r = self.r
        if a["kind"] == "dbl":
            return r.choice(["x", "1.2.3", "", "1,5", "2.5x", "--1"])
        if a["kind"] in WIDE:
            lo, hi = WIDE[a["kind"]]
            opts = [str(hi + 1), str(hi * 10), "x", "12x", "1.5", "", "0x10", str(hi) + "0"]
            if lo < 0:
                opts += [str(lo - 1), str(lo * 10)]
            return r.choice(opts)
        if a["kind"] == "bits8":
            return r.choice(["8", "9", "x", "100"])
        if a["kind"] == "tup":
            return None
        if a["kind"] == "mapsi":
            return r.choice(["a", "a,", ",1", "a,x", "a,1.5", "a,1,2", "k=1", "a,2147483648"])
        if a["kind"] in GROWBITS:
            # no negative and no huge positions (unsigned destination without documented limit)
            opts = ["x", "1x", "x1", "1.5", "1 2"]
            for c in a["checks"]:
                if c["k"] == "lower" and c["a"] > 0: opts += [str(c["a"] - 1)] * 3
                if c["k"] == "upper": opts += [str(c["a"])] * 3
                if c["k"] == "range": opts += [str(c["b"])] * 2 + ([str(c["a"] - 1)] * 2 if c["a"] > 0 else [])
                if c["k"] == "values": opts += ["4", "77"] * 2
            return r.choice(opts)
        if is_int_kind(a["kind"]):
            opts = ["x", "1x", "x1", "1.5", "99999999999", "2147483648", "", "--", "1 2"]
            for c in a["checks"]:
                if c["k"] == "lower": opts += [str(c["a"] - 1)] * 3
                if c["k"] == "upper": opts += [str(c["a"])] * 3
                if c["k"] == "range": opts += [str(c["a"] - 1), str(c["b"])] * 2
                if c["k"] == "values": opts += ["4", "777"] * 2
            return r.choice(opts)
        opts = []
        for c in a["checks"]:
            if c["k"] == "pattern": opts += [v for v in PAT_BAD[c["a"]] if v != ""] * 2
            if c["k"] == "minlen" and c["a"] > 1: opts.append("a" * (c["a"] - 1))
            if c["k"] == "maxlen": opts.append("b" * (c["a"] + 1))
            if c["k"] == "values": opts.append("purple")
        return r.choice(opts) if opts else None

    # ------------------------------------------------------------ abstract lines
    def valid_line(self, cfgd, maxuses=6):
        """list of uses (argument index, [value texts]) intended to obey every rule."""
        r = self.r
        args = cfgd["args"]
        n = len(args)
        chosen = [i for i in range(1, n + 1) if not args[i - 1]["depr"] and args[i - 1]["kind"] not in ("argfile", "sub")
                  and (args[i - 1]["mand"] or r.random() < 0.5)]
        # handler constraints
        for h in cfgd["hcons"]:
            S_ = h["args"]
            if h["k"] == "allOf":
                if any(i in chosen for i in S_) or r.random() < 0.5:
                    chosen = sorted(set(chosen) | set(S_))
            elif h["k"] in ("anyOf", "oneOf"):
                keep = r.choice(S_)
                chosen = [i for i in chosen if i not in S_]
                if h["k"] == "oneOf" or r.random() < 0.6:
                    chosen.append(keep)
        # requires: add partners; excludes: drop partners
        changed = True
        guard = 0
        while changed and guard < 10:
            changed = False; guard += 1
            for i in list(chosen):
                for j in args[i - 1]["req"]:
                    if j not in chosen:
                        chosen.append(j); changed = True
        for i in list(chosen):
            if i in chosen:
                for j in args[i - 1]["exc"]:
                    if j in chosen and j != i:
                        chosen.remove(j)
        # after removing, constraints may be broken again: give up on such lines (caller retries)
        for i in chosen:
            for j in args[i - 1]["req"]:
                if j not in chosen:
                    return None
        for h in cfgd["hcons"]:
            cnt = sum(1 for i in h["args"] if i in chosen)
            if h["k"] == "allOf" and cnt != len(h["args"]): return None     # none used: left open by the documentation
            if h["k"] == "anyOf" and cnt > 1: return None
            if h["k"] == "oneOf" and cnt != 1: return None
        for i, a in enumerate(args):
            if a["mand"] and (i + 1) not in chosen:
                return None
        # value arguments on one variable: "modified only once" - at most one checked argument, and it comes first
        vgroups = {}
        for i in chosen:
            if args[i - 1]["kind"] == "valint":
                vgroups.setdefault(args[i - 1]["dst"], []).append(i)
        for d, members in vgroups.items():
            if sum(1 for i in members if args[i - 1]["chkorig"]) > 1:
                return None
        # order: requiring before required, excluding irrelevant (partner absent)
        r.shuffle(chosen)
        order = []
        pending = list(chosen)
        guard = 0
        while pending and guard < 100:
            guard += 1
            for i in list(pending):
                # i can be placed if no argument that requires i is still pending... (requiring first)
                if not any(i in args[j - 1]["req"] for j in pending if j != i):
                    order.append(i); pending.remove(i)
                    break
            else:
                return None
        for d, members in vgroups.items():
            chk = [i for i in members if args[i - 1]["chkorig"]]
            first = min(members, key=order.index)
            if chk and chk[0] != first:
                x, y = order.index(chk[0]), order.index(first)
                order[x], order[y] = order[y], order[x]
                for k, i in enumerate(order):                  # the swap must keep requiring arguments in front
                    if any(j in order[:k] for j in args[i - 1]["req"]):
                        return None
        uses = []
        for i in order:
            a = args[i - 1]
            if a["kind"] == "flag":
                uses.append([i, []])
                continue
            if a["kind"] == "valint":
                uses.append([i, []])
                # without the check the variable may be modified again (when the cardinality allows a second use)
                if not a["chkorig"] and (a["card"]["t"] == "none" or (a["card"]["t"] == "max" and a["card"]["a"] >= 2)):
                    if r.random() < 0.4:
                        uses.append([i, []])
                continue
            if a["kind"] == "level":
                up = min([c["a"] for c in a["checks"] if c["k"] == "upper"] + [10**6])
                if a["mix"] and r.random() < 0.5:
                    v = r.randint(a["init"], min(up - 1, a["init"] + 3)) if up - 1 >= a["init"] else None
                    if v is None: return None
                    uses.append([i, [str(v)]])
                    for _ in range(r.randint(0, max(0, min(2, up - 1 - v)))):
                        uses.append([i, []])
                elif r.random() < 0.5:
                    n = r.randint(1, max(1, min(3, up - 1 - a["init"])))
                    if a["init"] + n >= up: return None
                    uses += [[i, []] for _ in range(n)]
                else:
                    if up - 1 < 0: return None
                    uses.append([i, [str(r.randint(0, min(up - 1, 9)))]])
                continue
            if is_cont(a["kind"]):
                lo, hi = 1, (4 if r.random() < 0.9 else r.randint(8, 30))          # sometimes long value lists
                if a["card"]["t"] == "max": hi = min(hi, a["card"]["a"])
                if a["card"]["t"] == "exact": lo = hi = a["card"]["a"]
                if a["card"]["t"] == "range": lo, hi = a["card"]["a"], a["card"]["b"]
                if a["kind"] in ARR: hi = min(hi, 3); lo = min(lo, hi)
                if a["kind"] == "tup": lo = hi = 3
                k = r.randint(lo, hi)
                vals = []
                for n in range(k):
                    v = self.good_value(a) if a["kind"] != "tup" else (self.good_value({"kind": "int", "checks": []}) if n != 1 else self.good_value({"kind": "str", "checks": []}))
                    if a["kind"] == "bits8": v = str(r.randint(0, 7))
                    if v is None: return None
                    vals.append(v)
                if a["uniq"] == "error" or a["kind"] in ARR and a["uniq"] != "no":
                    if len(set(self._canon(a, v) for v in vals)) != len(vals): return None
                    if a["kind"] not in ARR and not a["clear"] and any(self._canon(a, v) in [self._canon_init(a, x) for x in a["init"]] for v in vals): return None
                # cardinality counts elements: a dropped duplicate still counts, keep it simple
                uses.append([i, vals])
            elif a["vm"] == "cmd":
                continue                          # added below: a command-mode use is the last one
            else:
                v = self.good_value(a)
                if v is None: return None
                if a["vm"] == "opt" and r.random() < 0.3:
                    uses.append([i, []])
                else:
                    uses.append([i, [v]])
        # sub-groups: entered once or twice, what is given inside them is a valid line of the sub-group's configuration (cut in
        # two when the sub-group is entered twice); placed anywhere (the spelling decides whether the next use can follow)
        for i in range(1, len(args) + 1):
            a = args[i - 1]
            if a["kind"] != "sub" or not (a["mand"] or r.random() < 0.7):
                continue
            sl = self.place_positional(a["sub"], self.valid_line(a["sub"], maxuses)) if r.random() < 0.9 else []
            if sl is None:
                sl = []
            parts = [sl]
            if r.random() < 0.3:
                cut = r.randint(0, len(sl))
                parts = [sl[:cut], sl[cut:]]
            for part in parts:
                uses.insert(r.randint(0, len(uses)), [i, [], part])
        for i in order:
            a = args[i - 1]
            if a["vm"] == "cmd":
                words = self.command_text(cfgd)
                if a["pos"]:
                    words[0] = r.choice(["ls", "run", "x", "file.txt", "a=b", "7"])      # a positional value may not look like a key
                    uses.append([i, [" ".join(words)]])
                else:
                    uses.append([i, [" ".join(words)]] if r.random() < 0.95 else [i, []])
                break
        for u in uses:
            if args[u[0] - 1]["pos"] and any(v.startswith("-") or v in ("(", ")", "!", "") for v in u[1]):
                return None                      # a positional value may not look like a key
        # value constraints
        for h in cfgd["hcons"]:
            if h["k"] == "differ":
                seen = []
                for i in h["args"]:
                    u = [u for u in uses if u[0] == i]
                    val = self._canon(args[i - 1], u[-1][1][0]) if u and u[-1][1] else None
                    if u and val is None: val = ""
                    if u:
                        if val in seen: return None
                        seen.append(val)
            if h["k"] == "disjoint":
                sets = []
                for i in h["args"]:
                    a = args[i - 1]
                    cur = set(self._canon_init(a, x) for x in a["init"]) if not a["clear"] else set()
                    for u in uses:
                        if u[0] == i:
                            cur |= set(self._canon(a, v) for v in u[1])
                    if not any(u[0] == i for u in uses):
                        cur = set(self._canon_init(a, x) for x in a["init"])
                    for s in sets:
                        if s & cur: return None
                    sets.append(cur)
        return uses

    def place_positional(self, cfgd, line):
        """moves the positional uses of a line to places where a free value is not taken by the argument in front of it (a
        multi-value argument, an optional-mode argument used without value); None if there is no such place."""
        if line is None:
            return None
        args = cfgd["args"]
        keyed = [u for u in line if not args[u[0] - 1]["pos"]]
        for u in [u for u in line if args[u[0] - 1]["pos"]]:
            ok = [k for k in range(len(keyed) + 1)
                  if k == 0 or not (args[keyed[k - 1][0] - 1]["multi"] or (args[keyed[k - 1][0] - 1]["vm"] == "opt" and not keyed[k - 1][1])
                                    or args[keyed[k - 1][0] - 1]["pos"])]
            if not ok:
                return None
            keyed.insert(self.r.choice(ok), u)
        return keyed

    def _canon(self, a, v):
        if a["kind"] == "mapsi":
            return v.split(",")[0]                    # duplicates are duplicates of the key
        if a["kind"] == "dbl":
            try: return float(v)
            except ValueError: return v
        if is_int_kind(a["kind"]):
            try: return int(v)
            except ValueError: return v
        if "upper" in a["formats"] or "lower" in a["formats"]:
            for f in a["formats"]:
                v = v.upper() if f == "upper" else v.lower()
        return v

    def _canon_init(self, a, x):
        if a["kind"] == "mapsi":
            return S(x[0])
        return x if is_int_kind(a["kind"]) else S(x)

    # ------------------------------------------------------------ spellings
    def abbrevs(self, cfgd, i):
        """unambiguous proper prefixes (length >= 2) of the long key of argument i."""
        args = cfgd["args"]
        lk = S(args[i - 1]["l"])
        res = []
        if not cfgd["abbr"]:
            return res
        longs = [S(a["l"]) for a in args if a["l"]] + (["endvalues"] if cfgd.get("endvalues") else [])
        for n in range(2, len(lk)):
            p = lk[:n]
            if p in longs:
                continue                      # exact key of another argument
            if sum(1 for x in longs if x.startswith(p)) == 1:
                res.append(p)
        return res

    def marker_words(self, cfgd):
        """spellings of the standard argument --endvalues: the key or an unambiguous abbreviation of it."""
        res = ["--endvalues"]
        if cfgd.get("abbr", True):
            longs = [S(a["l"]) for a in cfgd["args"] if a["l"]] + ["endvalues"]
            for n in range(2, len("endvalues")):
                p = "endvalues"[:n]
                if p not in longs and sum(1 for x in longs if x.startswith(p)) == 1:
                    res.append("--" + p)
        return res

    def with_markers(self, cfgd, line):
        """a line of a configuration with --endvalues: markers (uses [0, []]) behind uses of multi-value arguments - several per
        line -, a positional use moved directly behind a marker (legal only there), now and then a marker without effect."""
        if line is None or not cfgd.get("endvalues"):
            return line
        r = self.r
        args = cfgd["args"]
        out = []
        for u in line:
            out.append(u)
            a = args[u[0] - 1]
            if a["multi"] and not a["pos"] and a["kind"] != "sub" and r.random() < 0.6:
                out.append([0, []])
        marks = [k for k, u in enumerate(out) if u[0] == 0]
        pos = [k for k, u in enumerate(out) if u[0] and args[u[0] - 1]["pos"] and args[u[0] - 1]["vm"] != "cmd"]
        if marks and pos and r.random() < 0.7:
            u = out.pop(r.choice(pos))
            marks = [k for k, x in enumerate(out) if x[0] == 0]
            out.insert(r.choice(marks) + 1, u)
        if r.random() < 0.15:
            last = len(out) - 1 if out and out[-1][0] and args[out[-1][0] - 1]["vm"] == "cmd" else len(out)
            out.insert(r.randint(0, last), [0, []])
        return out

    def spell_use(self, cfgd, use, force=None):
        """one surface form of a use: list of words; returns (words, form name, groupable short char or None)."""
        r = self.r
        i, vals = use[0], use[1]
        a = cfgd["args"][i - 1]
        sep = chr(a["sep"])
        if a["pos"] and a["vm"] == "cmd":
            return vals[0].split(" "), "pos", None
        if a["pos"]:
            return [sep.join(vals)] if is_cont(a["kind"]) else list(vals), "pos", None
        forms = []
        if a["s"]:
            forms += ["short"] * 3
        if a["l"]:
            forms += ["long", "long"]
            if self.abbrevs(cfgd, i):
                forms += ["abbr", "abbr"]
        form = force if force in forms else r.choice(forms)
        key = {"short": "-" + chr(a["s"]) if a["s"] else None, "long": "--" + S(a["l"]),
               "abbr": "--" + (r.choice(self.abbrevs(cfgd, i)) if self.abbrevs(cfgd, i) else S(a["l"]))}[form]
        if a["kind"] == "sub":
            # the key, then the sub-group's own line; the short key may lead a group that goes on with the sub-group's short keys
            sw = self.spell_line(a["sub"], use[2])
            if sw is None:
                return None, form, None
            if form == "short" and sw and len(sw[0]) >= 2 and sw[0][0] == "-" and sw[0][1] != "-" and r.random() < 0.4:
                return [key + sw[0][1:]] + sw[1:], form, None
            return [key] + sw, form, None
        if a["vm"] == "cmd":
            # the key as a word of its own, then the text as it is
            return [key] + (vals[0].split(" ") if vals else []), form, None
        if a["kind"] in ("flag", "valint") or not vals:
            return [key], form, (chr(a["s"]) if form == "short" else None)
        # value text(s)
        if is_cont(a["kind"]):
            # cut the value list into words: first word (attached to the key) + free words when multi-value
            if a["multi"] and len(vals) > 1 and r.random() < 0.6:
                cuts = sorted(r.sample(range(1, len(vals)), r.randint(1, len(vals) - 1)))
                parts = [vals[x:y] for x, y in zip([0] + cuts, cuts + [len(vals)])]
            else:
                parts = [vals]
            wordsv = [sep.join(p) for p in parts]
            if any(w.startswith("-") or w in ("(", ")", "!") for w in wordsv[1:]):
                wordsv = [sep.join(vals)]            # a free word may not look like a key
                parts = [vals]
            if r.random() < 0.1 and len(parts[0]) > 1:
                wordsv[0] = wordsv[0].replace(sep, sep + sep, 1)      # empty element inside a list is dropped
        else:
            wordsv = [vals[0]]
        v0 = wordsv[0]
        nextword_ok = not v0.startswith("-") and v0 not in ("(", ")", "!")
        attach = []
        if form == "short":
            if nextword_ok: attach += ["next", "next"]
            if a["vm"] == "req" and v0 != "": attach += ["glued"]
        else:
            if nextword_ok: attach += ["next", "next"]
            attach += ["eq"]
        at = r.choice(attach)
        if at == "next": words = [key, v0]
        elif at == "glued": words = [key + v0]
        else: words = [key + "=" + v0]
        return words + wordsv[1:], form + "/" + at, (chr(a["s"]) if form == "short" and at in ("next", "glued") else None)

    def spell_line(self, cfgd, uses):
        """legal spelling of an abstract line: list of words (strings); None if the line has none (sub-groups: the word behind a
        sub-group would be taken by the sub-group's handler)."""
        if any(u[0] == 0 for u in uses):
            # --endvalues markers: the pieces between them are spelled on their own
            out, seg = [], []
            for u in list(uses) + [None]:
                if u is None or u[0] == 0:
                    w = self.spell_line(cfgd, seg)
                    if w is None:
                        return None
                    out += w
                    if u is not None:
                        out.append(self.r.choice(self.marker_words(cfgd)))
                    seg = []
                else:
                    seg.append(u)
            return out
        if not any(cfgd["args"][u[0] - 1]["kind"] == "sub" for u in uses):
            return self._spell_line(cfgd, uses)
        # lines with sub-groups: spelled piece by piece; the first word behind a sub-group must be unknown to its handler
        out = []
        k = 0
        args = cfgd["args"]
        while k < len(uses):
            u = uses[k]
            a = args[u[0] - 1]
            if a["kind"] == "sub":
                w, form, ch = self.spell_use(cfgd, u)
                if w is None:
                    return None
                piece = w
                j = k + 1
            else:
                j = k + 1
                while j < len(uses) and args[uses[j][0] - 1]["kind"] != "sub":
                    j += 1
                piece = None
            if k > 0 and args[uses[k - 1][0] - 1]["kind"] == "sub":
                prev = uses[k - 1]
                sc = args[prev[0] - 1]["sub"]
                lastu = prev[2][-1] if prev[2] else None
                freeval = lastu is not None and (sc["args"][lastu[0] - 1]["multi"] or (sc["args"][lastu[0] - 1]["vm"] == "opt" and not lastu[1]))
                for _ in range(6):
                    cand = piece if piece is not None else self._spell_line(cfgd, uses[k:j])
                    if cand is None:
                        return None
                    if not cand or not taken_by_sub(sc, cand[0], freeval):
                        piece = cand
                        break
                    if a["kind"] == "sub":
                        piece, form, ch = self.spell_use(cfgd, u)
                        if piece is None:
                            return None
                else:
                    return None
            elif piece is None:
                piece = self._spell_line(cfgd, uses[k:j])
                if piece is None:
                    return None
            out += piece
            k = j
        return out

    def _spell_line(self, cfgd, uses):
        r = self.r
        out = []
        k = 0
        args = cfgd["args"]
        while k < len(uses):
            u = uses[k]
            a = args[u[0] - 1]
            # group consecutive short flags behind one dash (optionally ending in a valued short key)
            if a["kind"] in ("flag", "valint") and a["s"] and r.random() < 0.4:
                grp = [chr(a["s"])]
                j = k + 1
                while j < len(uses) and args[uses[j][0] - 1]["kind"] in ("flag", "valint") and args[uses[j][0] - 1]["s"] and r.random() < 0.7:
                    grp.append(chr(args[uses[j][0] - 1]["s"])); j += 1
                tailw = []
                if j < len(uses):
                    b = args[uses[j][0] - 1]
                    if b["s"] and b["kind"] not in ("flag", "valint") and not b["pos"] and uses[j][1] and r.random() < 0.5:
                        w, form, ch = self.spell_use(cfgd, uses[j], force="short")
                        if ch and w[0].startswith("-" + ch):
                            grp.append(w[0][1:])      # "n" or "n5"
                            tailw = w[1:]
                            j += 1
                out.append("-" + "".join(grp))
                out += tailw
                k = j
                continue
            w, form, ch = self.spell_use(cfgd, u)
            out += w
            k += 1
        return out


def growbits_cross_prefix(cfgd):
    """a growing bit set (vector<bool>, DynamicBitset) whose long key is prefix-related to a long key of ANOTHER member handler:
    through the recorded finding 'abbreviations are resolved per member' a value meant for the other argument (for instance
    a negative number) can reach the bit set as a position; the allocation of 2^64 bits is refused by the address
    sanitizer's allocator with a fatal report instead of std::bad_alloc - an artefact of the sensor, kept out of the inputs."""
    args = cfgd["args"]
    for a in args:
        if a["kind"] in GROWBITS and a["l"]:
            la = S(a["l"])
            for b in args:
                if b is not a and b["l"] and b.get("grp", 0) != a.get("grp", 0):
                    lb = S(b["l"])
                    if la.startswith(lb) or lb.startswith(la):
                        return True
    return False


def subgroup_scenario(g, groups=1):
    """one configuration built around sub-groups plus abstract lines that walk through the documented behaviour: sub-group key as
    last word, words behind the sub-group that belong to the main handler (keys, a free value for the positional argument),
    keys that exist in the main handler and in the sub-group, the same sub-group entered twice (a multi-value argument of the
    first visit must not take a free value of the second), a multi-value argument of the main handler in front of the sub-group.
    Returns (cfg, [line]); the lines are spelled by Gen.spell_line (None = no legal spelling, skipped by the caller)."""
    r = g.r
    sh = r.sample(SHORTS, 8)
    lo = r.sample(["alpha", "beta", "count", "delta", "edge", "first", "gamma", "host"], 8)

    def arg(kind, k, both=True):
        a = new_arg(kind)
        a["s"] = ord(sh[k])
        if both:
            a["l"] = T(lo[k])
        a["grp"] = r.randrange(groups)
        return a
    flag, num, vec = arg("flag", 0), arg("int", 1), arg("vecint", 2)
    vec["multi"] = True
    num["init"] = -1
    # sub-group 1: string, flag, multi-value vector, an int with the SAME keys as the main handler's int
    s_str, s_flag, s_vec, s_num = arg("str", 3), arg("flag", 4, both=False), arg("vecstr", 5), new_arg("int")
    s_num["s"], s_num["l"] = num["s"], list(num["l"])
    s_vec["multi"] = True
    if r.random() < 0.5:
        s_str["pair"] = {"on": True, "val": r.choice([1, 2, 3]), "init": 0}
    sub1 = {"abbr": True, "endvalues": False, "args": [s_str, s_flag, s_vec, s_num], "hcons": []}
    # sub-group 2: the same keys as sub-group 1 for its string and flag
    t_str, t_flag = new_arg("str"), new_arg("flag")
    t_str["s"], t_str["l"], t_flag["s"] = s_str["s"], list(s_str["l"]), s_flag["s"]
    sub2 = {"abbr": r.random() < 0.7, "endvalues": False, "args": [t_str, t_flag], "hcons": []}
    g1, g2 = arg("flag", 6), arg("flag", 7)
    for sa, sc in ((g1, sub1), (g2, sub2)):
        sa["kind"] = "sub"; sa["sub"] = sc; sa["init"] = False; sa["subctor"] = r.choice([0, 1])
    args = [flag, num, vec, g1, g2]
    haspos = r.random() < 0.6
    if haspos:
        p = new_arg("str"); p["pos"] = True; p["card"] = {"t": "none", "a": 0, "b": 0}; p["init"] = T("none"); p["grp"] = r.randrange(groups)
        args.append(p)
    cfgd = {"abbr": True, "endvalues": False, "args": args, "hcons": []}
    F, N, V, G1, G2, P = 1, 2, 3, 4, 5, 6
    iv = lambda: str(r.randint(-50, 50))
    sv = lambda: r.choice(["x", "file.txt", "a.b", "Q7"])
    lines = [
        [[G1, [], []]],                                                                   # sub-group key as last (only) word
        [[F, []], [G1, [], []]],
        [[G1, [], []], [F, []]],                                                          # next word is the main handler's
        [[G1, [], []], [V, [iv(), iv()]]],
        [[G1, [], [[1, [sv()]], [2, []]]], [F, []], [V, [iv()]]],
        [[G1, [], [[2, []], [4, [iv()]]]], [N, [iv()]]],                                  # -n inside the sub-group is the sub-group's, behind it not: cannot follow directly
        [[N, [iv()]], [G1, [], [[4, [iv()]]]], [F, []]],
        [[G1, [], [[1, [sv()]]]], [G2, [], [[1, [sv()]], [2, []]]]],                      # two sub-groups with the same keys
        [[G2, [], [[2, []]]], [G1, [], [[2, []]]], [G2, [], [[1, [sv()]]]]],              # entered twice
        [[G1, [], [[3, [sv(), sv()]]]], [F, []], [G1, [], [[2, []]]]],
        [[V, [iv(), iv()]], [G2, [], []]],
    ]
    if haspos:
        lines += [
            [[G2, [], []], [P, [sv()]]],                                                  # free value behind an empty sub-group
            [[G2, [], [[2, []]]], [P, [sv()]]],
            [[V, [iv()]], [G2, [], [[1, [sv()]]]], [P, [sv()]]],                          # not one more value of the vector in front of the sub-group
            [[G1, [], [[3, [sv()]]]], [F, []], [G1, [], []], [P, [sv()]]],                # nor of the sub-group's vector of the first visit
            [[G1, [], [[3, [sv(), sv()]]]], [G2, [], []], [G1, [], [[2, []]]], [P, [sv()]]],
        ]
    return cfgd, lines


def sub_mutations(g, cfgd, line):
    """rule-breaking edits around sub-groups and command-mode arguments; returns [(kind, words)]."""
    r = g.r
    args = cfgd["args"]
    res = []

    def add(kind, l2=None, words=None):
        w = words if words is not None else g.spell_line(cfgd, l2)
        if w is not None:
            res.append((kind, w))
    words = g.spell_line(cfgd, line)
    for k, u in enumerate(line):
        a = args[u[0] - 1]
        if a["kind"] == "sub":
            sc = a["sub"]
            sl = u[2]
            # a value inside the sub-group that does not convert / fails a check
            for j, su in enumerate(sl):
                b = sc["args"][su[0] - 1]
                if su[1]:
                    bv = g.bad_value(b)
                    if bv is not None and bv != "" and not bv.startswith("-") and not (is_cont(b["kind"]) and chr(b["sep"]) in bv):
                        vals = list(su[1]); vals[r.randrange(len(vals))] = bv
                        add("sub_bad_value", line[:k] + [[u[0], [], sl[:j] + [[su[0], vals]] + sl[j + 1:]]] + line[k + 1:])
                # an argument of the sub-group used again when the sub-group is entered a second time
                if not b["pos"] and not is_cont(b["kind"]) and b["card"]["t"] == "dflt" and b["kind"] not in ("level",):
                    add("sub_duplicate", line + [[u[0], [], [su]]])
                # the value of the last argument inside the sub-group is missing
                if su[1] and not b["pos"] and b["vm"] == "req" and j == len(sl) - 1 and k == len(line) - 1:
                    key = ("-" + chr(b["s"])) if b["s"] else "--" + S(b["l"])
                    head = g.spell_line(cfgd, line[:k] + [[u[0], [], sl[:j]]])
                    if head is not None:
                        add("sub_missing_value", words=head + [key])
                for x in b["exc"]:
                    e = sc["args"][x - 1]
                    v = [] if e["kind"] in ("flag", "valint") else [g.good_value(e)]
                    if not (v and v[0] is None) and not e["pos"]:
                        add("sub_excluded_after", line[:k] + [[u[0], [], sl + [[x, v]]]] + line[k + 1:])
            # a key that only the sub-group knows, used in front of the sub-group
            for j, b in enumerate(sc["args"]):
                if b["pos"] or words is None:
                    continue
                key = ("-" + chr(b["s"])) if b["s"] else "--" + S(b["l"])
                known = lookup_short(cfgd, key[1]) if not key.startswith("--") else lookup_long(cfgd, key[2:])
                if known == 0 and not any(args[x[0] - 1]["multi"] for x in line):
                    v = [] if b["kind"] in ("flag", "valint") or b["vm"] != "req" else [g.good_value(b) or "1"]
                    add("sub_key_outside", words=[key] + v + words)
                    break
            # an unknown key inside the sub-group
            if words is not None:
                free_s = [c for c in SHORTS + "h" if not any(x["s"] == ord(c) for x in args + sc["args"])]
                if free_s:
                    head = g.spell_line(cfgd, line[:k + 1])
                    tail = g.spell_line(cfgd, line[k + 1:])
                    if head is not None and tail is not None:
                        add("sub_unknown_key", words=head + ["-" + r.choice(free_s)] + tail)
        if a["vm"] == "cmd" and not a["pos"] and a["s"] and u[1]:
            rest = u[1][0].split(" ")
            head = g.spell_line(cfgd, line[:k])
            if head is None:
                continue
            # the key of a command-mode argument may not be part of a group of short keys
            flags = [chr(x["s"]) for x in args if x["kind"] == "flag" and x["s"] and not x["req"] and not x["exc"]]
            if flags:
                add("cmd_grouped", words=head + ["-" + r.choice(flags) + chr(a["s"])] + rest)
                add("cmd_grouped", words=head + ["-" + chr(a["s"]) + r.choice(flags)] + rest)
            add("cmd_glued", words=head + ["-" + chr(a["s"]) + rest[0]] + rest[1:])
            add("cmd_no_rest", words=head + ["-" + chr(a["s"])])                 # nothing behind the key: left open by the documentation
        if a["vm"] == "cmd" and not a["pos"] and a["l"] and u[1]:
            head = g.spell_line(cfgd, line[:k])
            if head is not None:
                rest = u[1][0].split(" ")
                add("cmd_eq", words=head + ["--" + S(a["l"]) + "=" + rest[0]] + rest[1:])   # left open as well
    return res


def to_words(ws):
    return [T(w) for w in ws]


def lookup_short(cfgd, ch):
    """index (1-based) of the argument with short key ch, 0 if there is none (ArgEval: LookupShort)."""
    for i, a in enumerate(cfgd["args"]):
        if a["s"] == ord(ch):
            return i + 1
    return 0


def lookup_long(cfgd, name):
    """ArgEval: LookupLong - exact key first, then (abbreviations on) a unique prefix; 0 unknown, -1 ambiguous."""
    if len(name) == 1:
        return lookup_short(cfgd, name)
    longs = [(S(a["l"]), i + 1) for i, a in enumerate(cfgd["args"]) if a["l"]]
    if cfgd.get("endvalues"):
        longs.append(("endvalues", len(cfgd["args"]) + 1))
    for l, i in longs:
        if l == name:
            return i
    if not cfgd.get("abbr", True):
        return 0
    m = [i for l, i in longs if l.startswith(name)]
    return m[0] if len(m) == 1 else (0 if not m else -1)


def taken_by_sub(sc, word, freeval):
    """would the handler of a sub-group (configuration sc) take this word?  (ArgDecl: TakenBySub)"""
    if len(word) >= 2 and word[0] == "-" and word[1] != "-":
        return lookup_short(sc, word[1]) != 0
    if len(word) > 2 and word.startswith("--"):
        return lookup_long(sc, word[2:].split("=", 1)[0]) != 0
    return freeval or any(a["pos"] for a in sc["args"])


def eval_action(argv_words, mode="handler", pre=None, tag=None, **kw):
    d = {"n": "Eval", "mode": mode, "presrc": "none", "filetext": [], "envstr": [], "argv": to_words(argv_words), "cmd": [],
         "files": [], "tag": tag or {"k": "none"}}
    d.update(kw)
    return d


def mutations(g, cfgd, line):
    """Rule-breaking edits of a valid abstract line (C02).  Returns list of (kind, words) with words as strings.
    Whether a mutant really breaks a rule is decided by the specification, not here."""
    r = g.r
    args = cfgd["args"]
    res = []

    def spell(l2):
        try:
            return g.spell_line(cfgd, l2)
        except Exception:
            return None

    def add(kind, l2=None, words=None):
        w = words if words is not None else spell(l2)
        if w is not None:
            res.append((kind, w))

    used = [u[0] for u in line]
    # drop a mandatory argument
    for i in set(used):
        if args[i - 1]["mand"]:
            add("drop_mandatory", [u for u in line if u[0] != i])
    # duplicate a use beyond the cardinality
    for k, u in enumerate(line):
        a = args[u[0] - 1]
        if not a["pos"] and not is_cont(a["kind"]) and a["card"]["t"] == "dflt":
            pos = r.randint(k + 1, len(line))
            add("duplicate", line[:pos] + [u] + line[pos:])
        if is_cont(a["kind"]) and a["card"]["t"] in ("max", "exact", "range") and a["kind"] not in ("setint", "bits8", "tup"):
            mx = a["card"]["a"] if a["card"]["t"] != "range" else a["card"]["b"]
            extra = []
            for n in range(mx + 1 - 0):
                v = g.good_value(a)
                if v is None:
                    break
                extra.append(v)
            if len(extra) == mx + 1 and not a["pos"]:
                add("too_many_values", line[:k] + [[u[0], extra]] + line[k + 1:])
        if is_cont(a["kind"]) and a["card"]["t"] in ("exact", "range") and a["card"]["a"] >= 2 and not a["pos"]:
            add("too_few_values", line[:k] + [[u[0], u[1][:1]]] + line[k + 1:])
        if a["kind"] in ARR and not a["pos"]:
            vals = [g.good_value(a) for _ in range(4)]
            if all(v is not None for v in vals) and (a["uniq"] == "no" or len(set(int(v) for v in vals)) == 4):
                add("array_overflow", line[:k] + [[u[0], vals]] + line[k + 1:])
    # value arguments: a second modification of the variable that a checked value argument protects
    for k, u in enumerate(line):
        a = args[u[0] - 1]
        if a["kind"] == "valint":
            for j, b in enumerate(args):
                if b["kind"] == "valint" and b["dst"] == a["dst"] and not b["depr"] and (a["chkorig"] or b["chkorig"]) and j + 1 != u[0]:
                    pos = r.randint(k + 1, len(line)) if b["chkorig"] else r.randint(0, k)
                    add("value_twice", line[:pos] + [[j + 1, []]] + line[pos:])
    # key-value containers: a key given twice where duplicates are errors
    for k, u in enumerate(line):
        a = args[u[0] - 1]
        if a["kind"] == "mapsi" and a["uniq"] == "error" and u[1] and not a["pos"]:
            dup = u[1][0].split(",")[0] + "," + str(r.randint(0, 99))
            pos = r.randint(1, len(u[1]))
            add("dup_key", line[:k] + [[u[0], u[1][:pos] + [dup] + u[1][pos:]]] + line[k + 1:])
    # unknown keys
    words = spell(line)
    if words is not None:
        free_s = [c for c in SHORTS + "h" if not any(a["s"] == ord(c) for a in args)]
        pos = r.randint(0, len(words)) if not any(a["multi"] for a in args) else 0
        if free_s:
            add("unknown_short", words=words[:pos] + ["-" + r.choice(free_s)] + words[pos:])
        add("unknown_long", words=words[:pos] + ["--" + r.choice(["zzz", "help-me", "qq"])] + words[pos:])
        if not any(a["pos"] for a in args) and not any(a["multi"] for a in args):
            add("stray_value", words=words + ["stray"])
    # bad values
    for k, u in enumerate(line):
        a = args[u[0] - 1]
        if u[1]:
            bv = g.bad_value(a)
            if bv is not None and not (a["pos"] and (bv.startswith("-") or bv == "")):
                vals = list(u[1])
                vals[r.randrange(len(vals))] = bv
                if is_cont(a["kind"]) and (bv == "" or chr(a["sep"]) in bv):
                    continue
                add("bad_value", line[:k] + [[u[0], vals]] + line[k + 1:])
    # missing value: cut the words right after a key that needs a value
    for k, u in enumerate(line):
        a = args[u[0] - 1]
        if u[1] and not a["pos"] and a["vm"] == "req":
            key = ("-" + chr(a["s"])) if a["s"] else "--" + S(a["l"])
            head = spell(line[:k])
            tail = spell(line[k + 1:])
            if head is not None and tail is not None:
                if any(args[x[0] - 1]["pos"] for x in line[k + 1:]):
                    continue
                if tail and not tail[0].startswith("-"):
                    continue
                add("missing_value", words=head + [key] + tail)
    # argument constraints
    for k, u in enumerate(line):
        a = args[u[0] - 1]
        for j in a["exc"]:
            b = args[j - 1]
            if b["depr"] or b["pos"]:
                continue
            v = [] if b["kind"] in ("flag", "valint") else [g.good_value(b)]
            if v and v[0] is None:
                continue
            pos = r.randint(k + 1, len(line))
            add("excluded_after", line[:pos] + [[j, v]] + line[pos:])
        for j in a["req"]:
            add("required_missing", [x for x in line if x[0] != j])
    # handler constraints
    for h in cfgd["hcons"]:
        S_ = h["args"]
        usedS = [i for i in S_ if i in used]
        if h["k"] == "allOf" and len(usedS) == len(S_) and len(S_) > 1:
            drop = r.choice(S_)
            add("allof_partial", [x for x in line if x[0] != drop])
        if h["k"] in ("anyOf", "oneOf"):
            others = [i for i in S_ if i not in used and not args[i - 1]["depr"]]
            if usedS and others:
                j = r.choice(others)
                b = args[j - 1]
                v = [] if b["kind"] in ("flag", "valint") else [g.good_value(b)]
                if not (v and v[0] is None):
                    if is_cont(b["kind"]) and b["card"]["t"] in ("exact", "range"):
                        continue
                    add(h["k"].lower() + "_two", line + [[j, v]])
            if h["k"] == "oneOf" and usedS:
                add("oneof_none", [x for x in line if x[0] not in S_])
        if h["k"] == "differ" and len(usedS) >= 2:
            i, j = (usedS[0], usedS[1]) if len(usedS) == 2 else sorted(r.sample(usedS, 2))
            vi = [x for x in line if x[0] == i][-1][1]
            if vi:
                add("differ_equal", [[x[0], list(vi)] if x[0] == j else x for x in line])
            if len(S_) >= 3 and S_[0] in used and S_[-1] in used:
                # equal values on the first and the last listed argument, the ones between them not used at all
                vi = [x for x in line if x[0] == S_[0]][-1][1]
                if vi:
                    add("differ_equal_gap", [[x[0], list(vi)] if x[0] == S_[-1] else x for x in line if x[0] not in S_[1:-1]])
        if h["k"] == "disjoint" and len(usedS) >= 2:
            i, j = usedS[0], usedS[1]
            vi = [x for x in line if x[0] == i][-1][1]
            if vi:
                l2 = [[x[0], list(x[1]) + [vi[0]]] if x[0] == j else x for x in line]
                add("disjoint_intersect", l2)
    # ambiguous abbreviation
    if cfgd["abbr"]:
        longs = [S(a["l"]) for a in args if a["l"]]
        for lk in longs:
            for n in range(2, len(lk)):
                p = lk[:n]
                if p not in longs and sum(1 for x in longs if x.startswith(p)) >= 2 and words is not None:
                    i = longs.index(lk)
                    add("ambiguous_abbr", words=["--" + p] + words)
                    break
    # deprecated argument used
    for i, a in enumerate(args):
        if a["depr"] and not a["pos"] and words is not None:
            key = ("-" + chr(a["s"])) if a["s"] else "--" + S(a["l"])
            v = [] if a["kind"] in ("flag", "valint") else [g.good_value(a) or "1"]
            add("deprecated_used", words=[key] + v + words)
    # single dash, empty long key
    if words is not None:
        add("single_dash", words=words + ["-"])
    return res
