#!/usr/bin/env python3
"""Creates mutants/<name>.diff from (file, old, new) triples (first occurrence replaced).
tools/mkmutants.py [name-prefix ...]: only the mutants whose name starts with one of the prefixes (default: all)."""
import difflib, os, sys
REPO = "/repo"
M = [
 ("c01_eq_value_skips_char", "src/celma/prog_args/detail/arg_list_iterator.hpp", "mArgCharPos += equalPos + 2;", "mArgCharPos += equalPos + 3;"),
 ("c01_glued_value_keeps_key_char", "src/celma/prog_args/detail/arg_list_iterator.hpp",
  "mCurrElement.setValue( mArgIndex, &mpArgV[ mArgIndex][ mArgCharPos]);",
  "mCurrElement.setValue( mArgIndex, &mpArgV[ mArgIndex][ mNextIsValue ? mArgCharPos : mArgCharPos - 1]);"),
 ("c02_no_check_required", "src/library/prog_args/handler.cpp", "      mConstraints.checkRequired();\n\n      // and check for global", "      // and check for global"),
 ("c02_upper_inclusive", "src/celma/prog_args/detail/check_upper.hpp", "if (native >= mCheckValue)", "if (native > mCheckValue)"),
 ("c02_cardinality_max_off_by_one", "src/library/prog_args/detail/cardinality_max.cpp", "(++mNumValues > mMaxNumAcceptedValues)", "(mNumValues++ > mMaxNumAcceptedValues)"),
 ("c02_excludes_only_first_listed", "src/library/prog_args/detail/constraint_container.cpp",
  "         mConstraints.addArgument( Data( constraint_type, created_by), search);\n",
  "         mConstraints.addArgument( Data( constraint_type, created_by), search);\n         if (constraint_type == Constraint::excluded)\n            break;   // for\n"),
 ("c02_pattern_search_not_match", "src/library/prog_args/detail/check_pattern.cpp", "if (!std::regex_match( val, base_match, mRegEx))", "if (!std::regex_search( val, base_match, mRegEx))"),
 ("c03_lower_exclusive", "src/celma/prog_args/detail/check_lower.hpp", "if (native < mCheckValue)", "if (native <= mCheckValue)"),
 ("c03_exact_key_ambiguous", "src/library/prog_args/detail/argument_container.cpp", "            ambiguous = true;",
  "            throw runtime_error( \"Long argument abbreviation matches more than one argument\");"),
 ("c04_argv_array_too_small", "src/library/appl/arg_string_2_array.cpp", "mpArgV = new char*[ arguments.size() + 2];", "mpArgV = new char*[ arguments.size() + 1];"),
 ("c04_progname_copy_short", "src/library/prog_args/handler.cpp",
  "copy( new char[ ::strlen( arg0) + 1]);\n\n   ::strcpy( copy.get(), arg0);\n\n   const char*  progNameOnly",
  "copy( new char[ ::strlen( arg0)]);\n\n   ::strcpy( copy.get(), arg0);\n\n   const char*  progNameOnly"),
 ("c04_vecbool_unchecked_write", "src/celma/prog_args/detail/typed_arg.hpp",
  "            auto const  pos = boost::lexical_cast< size_t>( listVal);\n            if (pos >= mDestVar.size())\n               mDestVar.resize( pos + pos / 2 + 1);\n            mDestVar.at( pos) = !mResetFlags;",
  "            auto const  pos = boost::lexical_cast< size_t>( listVal);\n            if (pos >= mDestVar.size())\n               mDestVar.resize( pos + pos / 2 + 1);\n            mDestVar[ pos] = !mResetFlags;"),
 ("c04_dynbits_set_unchecked", "src/library/container/dynamic_bitset.cpp", "   mData.at( pos) = value;", "   mData[ pos] = value;"),
 ("c05_no_mismatch_check", "src/celma/prog_args/detail/storage.hpp", "if (entry.mismatch( key))", "if (false && entry.mismatch( key))"),
 ("c05_subgroup_keys_no_abbrev", "src/library/prog_args/handler.cpp", "   mSubGroupArgs( (flag_set & hfNoAbbr) == 0, true),", "   mSubGroupArgs( false, true),"),
 ("c05_abbr_first_match_wins", "src/library/prog_args/detail/argument_container.cpp", "   if (ambiguous)\n      throw", "   if (false && ambiguous)\n      throw"),
 ("c06_clear_every_use", "src/celma/prog_args/detail/typed_arg.hpp", "      mDestVar.clear();\n      // clear only once\n      mClearB4Assign = false;", "      mDestVar.clear();"),
 ("c06_unique_skips_first_element", "src/celma/prog_args/detail/typed_arg.hpp",
  "      if (mUniqueData && mDestVar.contains( dest_value))\n      {\n         if (mTreatDuplicatesAsErrors)",
  "      if (mUniqueData && mDestVar.contains( dest_value) && (it != tok.begin()))\n      {\n         if (mTreatDuplicatesAsErrors)"),
 ("c06_array_sort_whole", "src/celma/prog_args/detail/typed_arg.hpp", "std::sort( mDestVar, mDestVar + mIndex);", "std::sort( mDestVar, mDestVar + N);"),
 ("c07_backslash_in_quotes_literal", "src/library/appl/arg_string_2_array.cpp", "      } else if (next_char == '\\\\')", "      } else if ((next_char == '\\\\') && !inQuote)"),
 ("c07_file_counts_cardinality", "src/library/prog_args/handler.cpp", "   hdl->assignValue( mReadMode != 0, value, mInverted);",
  "   hdl->assignValue( (mReadMode & ReadMode::envVar) != 0, value, mInverted);"),
 ("c08_skip_global_constraints", "src/library/prog_args/groups.cpp", "         stored_group.mpArgHandler->checkGlobalConstraints();\n", ""),
 ("c08_values_first_handler", "src/library/prog_args/groups.cpp", "            if ((last_arg != nullptr) && last_arg->takesMultiValue())",
  "            if ((last_arg != nullptr) && last_arg->takesMultiValue() && (&stored_group == &mArgGroups.front()))"),
 ("c09_static_separator_buffer", "src/celma/common/tokenizer.hpp", "   return std::string( 1, c);", "   static std::string  s;\n   s.assign( 1, c);\n   return s;"),
 # destination kinds vector<bool>, DynamicBitset, std::map, value and pair arguments (docs/notes_prog_args_kinds.md)
 ("c06_vecbool_growth_orig", "src/celma/prog_args/detail/typed_arg.hpp",
  "            auto const  pos = boost::lexical_cast< size_t>( listVal);\n            if (pos >= mDestVar.size())\n               mDestVar.resize( pos + pos / 2 + 1);",
  "            auto const  pos = boost::lexical_cast< size_t>( listVal);\n            if (pos >= mDestVar.size())\n               mDestVar.resize( pos * 1.5);"),
 ("c06_vecbool_unset_sets", "src/celma/prog_args/detail/typed_arg.hpp",
  "               mDestVar.resize( pos + pos / 2 + 1);\n            mDestVar.at( pos) = !mResetFlags;\n         } // end if",
  "               mDestVar.resize( pos + pos / 2 + 1);\n            mDestVar.at( pos) = true;\n         } // end if"),
 ("c06_dynbits_clear_every_use", "src/celma/prog_args/detail/typed_arg.hpp",
  "         mDestVar.reset();\n         // clear only once\n         mClearB4Assign = false;", "         mDestVar.reset();"),
 ("c06_map_duplicate_key_overwrites", "src/celma/prog_args/detail/key_value_container_adapter.hpp",
  "      mDestCont.insert( { key, value});", "      mDestCont[ key] = value;"),
 ("c01_pair_second_not_set", "src/celma/prog_args/detail/typed_arg_pair.hpp",
  "   TypedArg< T1>::assign( value, inverted);\n   mDestVar2 = mValue2;", "   TypedArg< T1>::assign( value, inverted);"),
 ("c02_value_orig_check_off", "src/celma/prog_args/detail/typed_arg_value.hpp",
  "   if (mCheckOrigValue && (mDestVar != mOrigValue))", "   if (false && mCheckOrigValue && (mDestVar != mOrigValue))"),
 # sub-groups and value mode 'command' (docs/notes_prog_args_subgroups.md)
 ("c03_subgroup_skips_next_word", "src/library/prog_args/handler.cpp",
  "      auto  subAI( ai);\n      ++subAI;", "      ++ai;\n      auto  subAI( ai);"),
 ("c03_subgroup_keeps_last_arg", "src/library/prog_args/handler.cpp",
  "      } // end while\n\n      mpLastArg = nullptr;\n      return ArgResult::consumed;", "      } // end while\n\n      return ArgResult::consumed;"),
 ("c08_subgroup_one_argument_only", "src/library/prog_args/handler.cpp",
  "         ai = subAI++;\n      } // end while", "         ai = subAI++;\n         break;\n      } // end while"),
 ("c08_groups_ignore_command_last", "src/library/prog_args/groups.cpp",
  "      if (result == Handler::ArgResult::last)\n         break;   // for", "      if (false && (result == Handler::ArgResult::last))\n         break;   // for"),
 ("c01_command_long_key_refused", "src/celma/prog_args/detail/arg_list_iterator.hpp",
  "   return (mCurrElement.mElementType != E::Type::singleCharArg)\n      || ((mCurrElement.mArgCharPos == 1)\n          && (mpArgV[ mCurrElement.mArgIndex][ 2] == '\\0'));",
  "   return (mCurrElement.mElementType == E::Type::singleCharArg)\n      && (mCurrElement.mArgCharPos == 1)\n      && (mpArgV[ mCurrElement.mArgIndex][ 2] == '\\0');"),
 ("c01_command_positional_drops_first_word", "src/library/prog_args/handler.cpp",
  "handleIdentifiedArg( hdl, mPosKey, ai.argsAsString());", "handleIdentifiedArg( hdl, mPosKey, ai.argsAsString( false));"),
 ("c04_command_rest_reads_argv_end", "src/celma/prog_args/detail/arg_list_iterator.hpp",
  "   for (; argi < mArgC; ++argi)\n   {\n      remaining.append", "   for (; argi <= mArgC; ++argi)\n   {\n      remaining.append"),
 ("c18_hidden_shown_in_optional", "src/library/prog_args/detail/argument_desc.cpp", "          && (printHidden || !mpArgObj->isHidden())",
  "          && (printHidden || !mpArgObj->isHidden() || !printIsMandatory)"),
 ("c18_long_only_uses_short_test", "src/library/prog_args/detail/argument_desc.cpp", "                  && mpArgObj->key().hasStringArg()));",
  "                  && mpArgObj->key().hasCharArg()));"),
 ("x06_flush_counted_after_reset", "src/celma/common/write_buffer.hpp", "      P::flushed( mWritePos);\n      mWritePos = 0;", "      mWritePos = 0;\n      P::flushed( mWritePos);"),
 ("x06_passthrough_not_counted", "src/celma/common/write_buffer.hpp", "      writeData( reinterpret_cast< const unsigned char* const>( data), len);\n      P::flushed( len);", "      writeData( reinterpret_cast< const unsigned char* const>( data), len);"),
 ("x06_source_read_counts_request", "src/celma/common/read_buffer.hpp", "      P::sourceRead( data_read);", "      P::sourceRead( N - mDataEnd + data_read);"),
 ("x06_buffer_read_fast_path_missing", "src/celma/common/read_buffer.hpp", "      mDataStart += len;\n      P::bufferRead( len);\n      return;", "      mDataStart += len;\n      return;"),
 ("x06_source_reads_counted_once_per_fill", "src/celma/common/read_buffer.hpp", "      mDataEnd += data_read;\n      P::sourceRead( data_read);\n   } while ((mDataEnd - mDataStart) < min_length);", "      mDataEnd += data_read;\n   } while ((mDataEnd - mDataStart) < min_length);\n   P::sourceRead( mDataEnd - mDataStart);"),
 ("c17_usage_block_indent_without_key_column_gap", "src/library/prog_args/detail/argument_desc.cpp", "format::TextBlock  tb( 2 * IndentLength + max_length, mLineLength, false);", "format::TextBlock  tb( IndentLength + max_length, mLineLength, false);"),
 ("c17_usage_line_length_not_passed_two_line_mode", "src/library/prog_args/detail/argument_desc.cpp", "format::TextBlock  tb( 2 * IndentLength, mLineLength, true);", "format::TextBlock  tb( 2 * IndentLength, DefaultLineLength, true);"),
]
root = os.path.dirname(os.path.dirname(os.path.abspath(__file__)))
sel = sys.argv[1:]
n = 0
for name, f, old, new in M:
    if sel and not any(name.startswith(p) for p in sel):
        continue
    n += 1
    # line endings are kept as they are in the repository (some files have CRLF: a patch with LF lines would not apply)
    src = open(os.path.join(REPO, f), newline="").read()
    if "\r\n" in src:
        old, new = old.replace("\n", "\r\n"), new.replace("\n", "\r\n")
    if src.count(old) < 1:
        print("PATTERN NOT FOUND", name); continue
    dst = src.replace(old, new, 1)
    d = difflib.unified_diff(src.splitlines(True), dst.splitlines(True), "a/" + f, "b/" + f)
    open(os.path.join(root, "mutants", name + ".diff"), "w", newline="").write("".join(d))
print("written", n)
