#!/usr/bin/env python3
"""Turns a recorded arg_driver trace (e.g. a replay file) back into a script for arg_driver --script."""
import json, sys
for ln in open(sys.argv[1]):
    d = json.loads(ln)
    e = d.pop("e")
    if e == "Reset":
        print(json.dumps({"n": "Reset", "cfg": d["cfg"]}))
    elif e in ("Eval", "Define", "Usage", "HelpArg", "Split", "UsageLayout"):
        for k in ("out", "dest", "what", "res", "entries", "stray", "toks", "unknown", "words", "argc", "nullterm", "prog0"):
            d.pop(k, None)
        d["n"] = e
        print(json.dumps(d))
