"""Predicates used by the `match` expressions of known_findings.jsonl (evaluated on a rejected trace event)."""


def _s(codes):
    return "".join(chr(c) for c in codes)


def xabbr(cfg, ev):
    """Groups evaluation where a typed long key is a prefix of long keys defined in two different member handlers
    (one of them possibly equal to the typed word): abbreviation matching is done per member handler."""
    if not cfg or ev.get("mode") != "groups" or not cfg.get("abbr", True):
        return False
    longs = [(_s(a["l"]), a.get("grp", 0)) for a in cfg["args"] if a.get("l")]
    for w in ev.get("argv", []):
        t = _s(w)
        if t.startswith("--") and len(t) > 2:
            name = t[2:].split("=", 1)[0]
            m = [(k, g) for k, g in longs if k.startswith(name)]
            if any(k != name for k, g in m) and len(set(g for k, g in m)) > 1:
                return True
    return False
