"""Predicates used by the `match` expressions of known_findings.jsonl (evaluated on a rejected trace event)."""


def _s(codes):
    return "".join(chr(c) for c in codes)


def xabbr(cfg, ev):
    """Groups evaluation where a typed long key is a prefix of long keys defined in two different member handlers
    (one of them possibly equal to the typed word): abbreviation matching is done per member handler."""
    if not cfg or ev.get("mode") != "groups" or not cfg.get("abbr", True):
        return False
    longs = [(_s(a["l"]), a.get("grp", 0)) for a in cfg["args"] if a.get("l")]
    for w in ev.get("argv", []):
        t = _s(w)
        if t.startswith("--") and len(t) > 2:
            name = t[2:].split("=", 1)[0]
            m = [(k, g) for k, g in longs if k.startswith(name)]
            if any(k != name for k, g in m) and len(set(g for k, g in m)) > 1:
                return True
    return False


def _collide(a, b):
    return (a.get("s", 0) != 0 and a.get("s", 0) == b.get("s", 0)) or (len(a.get("l", [])) > 0 and a.get("l") == b.get("l"))


def xcontainer(cfg, ev):
    """One handler with sub-group arguments AND ordinary arguments (they live in two containers, Handler::mSubGroupArgs and
    Handler::mArguments; definitions are checked and keys are looked up per container):
    * Define: the recorded result is exactly what per-container checking gives, and that differs from checking all keys
      of the handler together;
    * Eval: a typed key (short character, long key or its abbreviation) matches keys of both containers, or matches an
      argument whose key collides with one of the other container, or an argument whose definition result differs between
      per-container and joint checking (a refused / accepted definition earlier in the table changes what is stored later)."""
    if not cfg or not cfg.get("args"):
        return False
    args = cfg["args"]
    issub = [a.get("kind") == "sub" for a in args]
    if not any(issub) or all(issub):
        return False
    n = len(args)
    def define(per_container):
        stored, res = [], []
        for k in range(n):
            if any(_collide(args[k], args[j]) for j in stored if not per_container or issub[j] == issub[k]):
                res.append("refused")
            else:
                res.append("ok"); stored.append(k)
        return res
    if ev.get("e") == "Define":
        if ev.get("mode") != "handler":
            return False
        return ev.get("res") == define(True) and define(True) != define(False)
    if ev.get("e") != "Eval" or ev.get("mode") != "handler":
        return False
    clash = {k for k in range(n) for j in range(n) if issub[j] != issub[k] and _collide(args[k], args[j])}
    # consequence of the same finding in "lenient" set-ups: a definition that per-container checking accepts although the key is
    # taken (or refuses because such an argument was accepted before it) changes which later arguments the handler holds
    dper, dall = define(True), define(False)
    differs = {k for k in range(n) if dper[k] != dall[k]}
    clash |= differs | {k for k in range(n) for j in differs if _collide(args[k], args[j])}
    abbr = cfg.get("abbr", True)
    for w in ev.get("argv", []):
        t = _s(w)
        m = set()
        if t.startswith("--") and len(t) > 2:
            name = t[2:].split("=", 1)[0]
            m = {k for k in range(n) if args[k].get("l") and (_s(args[k]["l"]) == name or (abbr and _s(args[k]["l"]).startswith(name)))}
        elif t.startswith("-") and len(t) == 2:
            m = {k for k in range(n) if args[k].get("s") == ord(t[1])}
        if m & clash or len({issub[k] for k in m}) > 1:
            return True
    return False
