#!/usr/bin/env python3
"""Regenerates MANIFEST.json from checks/manifest_entries.json (one source of truth)."""
import json, os
root = os.path.dirname(os.path.dirname(os.path.abspath(__file__)))
ent = json.load(open(os.path.join(root, "checks", "manifest_entries.json")))
props = [json.loads(l)["id"] for l in open(os.path.join(root, "properties.jsonl"))]
checks = []
na = []
for pid in props:
    e = ent["checks"].get(pid)
    if e and os.path.exists(os.path.join(root, "checks", pid.lower() + ".py")):
        checks.append({
            "property_id": pid,
            "quick_cmd": "bin/check %s --tier quick" % pid,
            "thorough_cmd": "bin/check %s --tier thorough" % pid,
            "evidence_file": "/verif/evidence/%s.json" % pid,
            "replay_cmd_template": "bin/check %s --replay {path}" % pid,
            "engine": "tlc-conformance",
            "level_claimed": {"category": "model_checking", "text": e["text"], "design_ref": e["design_ref"]},
            "level_note": e["note"],
            "technique": e["technique"],
        })
    else:
        na.append({"property_id": pid, "reason": ent["not_applicable"].get(pid, "check not built yet in this session (planned, see DESIGN.md section 5)")})
m = {
    "version": 1,
    "setup_cmd": "bin/setup",
    "hooks": ent["hooks"],
    "engines": [{"name": "tlc-conformance", "path": "/verif/tools/vlib.py", "serves_properties": [c["property_id"] for c in checks],
                 "kind_free_text": "explicit TLA+ specification per component; TLC model checking of a bounded instance; every TLC transition replayed in the real code and every recorded implementation trace validated by TLC against the specification"}],
    "checks": checks,
    "not_applicable": na,
    "notes": ent.get("notes", ""),
}
json.dump(m, open(os.path.join(root, "MANIFEST.json"), "w"), indent=1)
print("MANIFEST.json: %d checks, %d not_applicable" % (len(checks), len(na)))
